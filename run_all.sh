#!/bin/sh
# usage: ./run_all.sh [quick|thorough]  - runs every registered check, validates every evidence file
TIER=${1:-quick}
cd "$(dirname "$0")"
rc=0
for p in $(/venv/bin/python -c "import json; print(' '.join(c['property_id'] for c in json.load(open('MANIFEST.json'))['checks']))"); do
  s=$(date +%s)
  out=$(./check $p --tier $TIER 2>&1); r=$?
  e=$(( $(date +%s) - s ))
  echo "$p exit=$r ${e}s :: $(echo "$out" | grep -c '^VIOLATION') violations :: $(echo "$out" | tail -1 | cut -c1-160)"
  [ $r -ne 0 ] && rc=1
done
python3-vt - <<'PY'
import json, jsonschema, glob
sch = json.load(open('/root/.vp/EVIDENCE.schema.json'))
bad = 0
for f in sorted(glob.glob('evidence/*.json')):
    try:
        jsonschema.validate(json.load(open(f)), sch)
    except Exception as e:
        bad += 1
        print('INVALID', f, str(e)[:200])
print('evidence files valid' if not bad else '%d invalid evidence files' % bad)
PY
exit $rc
