"""Deciding polynomial identities by exhaustive evaluation on a product grid.

Grid lemma: a polynomial in x1..xm of degree <= d_i in x_i that vanishes on a
product grid S1 x .. x Sm with |S_i| >= d_i + 1 is the zero polynomial.

certify(impl, ref, variables, valuesets) runs both functions once on
degree-tracking elements (mc.exact.DT) to obtain the degree certificate and
then enumerates the full product grid in exact Gaussian-rational arithmetic.
"""
import itertools
from fractions import Fraction

from mc.exact import GQ, DT, TrackError, F


def flatten(x):
    if isinstance(x, (list, tuple)):
        out = []
        for y in x:
            out += flatten(y)
        return out
    try:
        import numpy as np
        if isinstance(x, np.ndarray):
            return flatten(list(x.tolist())) if x.ndim else flatten(x.item())
        if isinstance(x, np.poly1d):
            return flatten(list(x.coeffs))
    except ImportError:
        pass
    return [x]


def degree_certificate(fn, variables):
    """-> (dict var -> degree bound, n_outputs) or raises TrackError"""
    DT.preconditions = []
    args = {v: DT.var(v) for v in variables}
    out = flatten(fn(**args))
    deg = {v: 0 for v in variables}
    for o in out:
        if isinstance(o, DT):
            for k, d in o.deg.items():
                deg[k] = max(deg[k], d)
    return deg, len(out), list(DT.preconditions)


# value pools: kinds 'z' (Gaussian rational), 't' (rational).  Several disjoint pools
# so a harness can (a) repeat the proof on different grids and (b) keep two
# variables' grids disjoint (Line.derivative's precondition start != end).
def zpool(choice, var_index, n):
    base = 3 + 5 * choice + 11 * var_index
    return [GQ(Fraction(base + 7 * k, 2 + choice), Fraction(-base + 3 * k * k + var_index, 3 + k % 2)) for k in range(n)]


def tpool(choice, n):
    vals = [Fraction(0), Fraction(1), Fraction(1, 2), Fraction(1, 3), Fraction(-1, 4), Fraction(5, 4),
            Fraction(2, 7), Fraction(3, 5), Fraction(9, 10), Fraction(-3, 2), Fraction(7, 3), Fraction(1, 8)]
    vals = vals[choice:] + vals[:choice]
    if n > len(vals):
        vals += [Fraction(k, 13) for k in range(2, 2 + n - len(vals))]
    return vals[:n]


def eq_exact(a, b):
    fa, fb = flatten(a), flatten(b)
    if len(fa) != len(fb):
        return False
    for x, y in zip(fa, fb):
        try:
            if not (GQ.of(x) == GQ.of(y)):
                return False
        except TypeError:
            return False
    return True


def certify(impl, ref, variables, choice=0, tvars=('t',)):
    """returns dict(result) with keys: ok, certificate (bool), degrees, grid_points,
    mismatch (first mismatching assignment or None), error."""
    res = {'ok': True, 'certificate': True, 'degrees': None, 'grid_points': 0, 'mismatch': None,
           'error': None, 'preconditions': []}
    try:
        d1, n1, pre1 = degree_certificate(impl, variables)
        d2, n2, pre2 = degree_certificate(ref, variables)
        deg = {v: max(d1[v], d2[v]) for v in variables}
        res['preconditions'] = sorted(set(pre1 + pre2))
    except TrackError as e:
        res['certificate'] = False
        res['error'] = 'degree tracking failed: %s' % e
        deg = {v: (8 if v in tvars else 2) for v in variables}
    except Exception as e:     # the implementation does not run on abstract elements
        res['certificate'] = False
        res['error'] = 'degree tracking raised %s: %s' % (type(e).__name__, e)
        deg = {v: (8 if v in tvars else 2) for v in variables}
    res['degrees'] = deg
    grids = []
    for i, v in enumerate(variables):
        n = deg[v] + 1
        grids.append(tpool(choice, n) if v in tvars else zpool(choice, i, n))
    if not res['certificate']:
        # no degree certificate (the implementation branched on a value or raised on the tracking elements): the grid
        # below is then a plain exhaustive test, not a proof; its assumed degrees make it explode for many variables
        # (3^9 x 9 points of exact arithmetic at degree 8), so it is cut down to two values per control point
        size = 1
        for g in grids:
            size *= len(g)
        if size > 20000:
            grids = [g if v in tvars else g[:2] for g, v in zip(grids, variables)]
            res['error'] = (res['error'] or '') + ' [uncertified grid reduced to 2 values per control point]'
    for combo in itertools.product(*grids):
        kw = dict(zip(variables, combo))
        res['grid_points'] += 1
        try:
            a = impl(**kw)
            b = ref(**kw)
            same = eq_exact(a, b)
        except Exception as e:
            res['ok'] = False
            res['mismatch'] = {k: repr(v) for k, v in kw.items()}
            res['error'] = 'evaluation raised %s: %s' % (type(e).__name__, e)
            return res
        if not same:
            res['ok'] = False
            res['mismatch'] = {k: repr(v) for k, v in kw.items()}
            res['observed'] = repr(flatten(a))[:300]
            res['expected'] = repr(flatten(b))[:300]
            return res
    return res
