"""Parametric families of LONG paths, and segment-level reductions to compare
Path-level operations against.

Several Path-level operations are reductions over the segments (bbox = union of
the segment boxes, radialrange = extreme over the segments, intersect = all
segment pairs, point/T2t = cumulative lengths).  Their segment-level
ingredients are decided by their own properties; what a Path-level
implementation can additionally get wrong is the reduction itself - and a
reduction usually has regimes that only start at some SIZE (a vectorised or
pruned fast path above a threshold).  The families here are swept over every
size in a list that brackets the powers of two up to a bound, so that any such
threshold below the bound is crossed from both sides.
"""
import math

from svgpathtools import Line, QuadraticBezier, CubicBezier, Arc, Path

# sizes bracketing every power of two up to 256, plus a few in between
SIZES_QUICK = [1, 2, 3, 4, 5, 7, 8, 9, 15, 16, 17, 31, 32, 33, 63, 64, 65, 100, 127, 128, 129, 200, 257]
SIZES_THOROUGH = sorted(set(SIZES_QUICK + list(range(1, 70)) + [255, 256, 300, 511, 512, 513, 1000]))


def zigzag(n, kinds='L', amp=1.0, step=1.0, start=0j, gaps=(), long_stroke_at=None, slant=0.0):
    """n segments going right; segment i rises (i even) or falls (i odd) by amp.
    kinds: string cycled over the segments (L, Q, C).  gaps: indices i at which segment i does
    NOT start where segment i-1 ended (a jump of (0.25*step, 3*amp) - the path is discontinuous
    there).  long_stroke_at: index of one segment that is 40 steps long instead of one
    (it ends far to the right and the path continues from there).  slant tilts everything."""
    segs = []
    pen = complex(start)
    for i in range(n):
        if i in gaps:
            pen = pen + complex(0.25 * step, 3 * amp)
        dx = step * (40 if i == long_stroke_at else 1)
        dy = amp if i % 2 == 0 else -amp
        end = pen + complex(dx, dy + slant * dx)
        k = kinds[i % len(kinds)]
        if k == 'L':
            s = Line(pen, end)
        elif k == 'Q':
            s = QuadraticBezier(pen, pen + complex(0.5 * dx, 2.5 * dy), end)       # bulges beyond its end points
        elif k == 'C':
            s = CubicBezier(pen, pen + complex(-0.5 * dx, 1.5 * dy), pen + complex(1.5 * dx, 1.5 * dy), end)  # bulges sideways too
        else:
            raise ValueError(k)
        segs.append(s)
        pen = end
    return segs


def comb(n, height=10.0, step=1.0, start=0j, kinds='L', with_long=None):
    """n vertical strokes (each its own sub-path: the path is discontinuous between them), stroke i
    at x = i*step from y=0 up to height*(1 + (i % 3)/10); with_long = index of one stroke that is
    replaced by a long slanted one crossing many columns."""
    segs = []
    for i in range(n):
        x = start.real + i * step
        y0 = start.imag
        h = height * (1 + (i % 3) / 10.0)
        if i == with_long:
            a, b = complex(x, y0 + 0.3 * height), complex(x + 30.3 * step, y0 + 0.8 * height)
        else:
            a, b = complex(x, y0), complex(x + 0.013, y0 + h)
        k = kinds[i % len(kinds)]
        if k == 'L':
            segs.append(Line(a, b))
        elif k == 'Q':
            segs.append(QuadraticBezier(a, (a + b) / 2 + 0.2 * step, b))
        else:
            segs.append(CubicBezier(a, a + (b - a) / 3 + 0.15 * step, a + 2 * (b - a) / 3 - 0.15 * step, b))
    return segs


def rungs(n, y_lo=1.0, y_hi=9.0, x0=-0.5, x1=None, step=1.0, n_cols=None, kinds='L'):
    """n near-horizontal strokes between y_lo and y_hi (each its own sub-path), slightly slanted,
    spanning x0..x1: together with comb() they form a grid of transversal crossings."""
    segs = []
    if x1 is None:
        x1 = (n_cols if n_cols is not None else n) * step - 0.5 * step + 0.037
    for j in range(n):
        y = y_lo + (y_hi - y_lo) * (j + 0.37) / n
        a, b = complex(x0, y), complex(x1, y + 0.011 * (1 + j % 4))
        k = kinds[j % len(kinds)]
        if k == 'L':
            segs.append(Line(a, b))
        elif k == 'Q':
            segs.append(QuadraticBezier(a, (a + b) / 2 + 0.05j, b))
        else:
            segs.append(CubicBezier(a, a + (b - a) / 3 + 0.04j, a + 2 * (b - a) / 3 - 0.04j, b))
    return segs


# ---------------------------------------------------------------- reductions

def union_bbox(segs):
    bs = [s.bbox() for s in segs]
    return (min(b[0] for b in bs), max(b[1] for b in bs), min(b[2] for b in bs), max(b[3] for b in bs))


def reduce_radialrange(segs, z):
    """((dmin, tmin, imin), (dmax, tmax, imax)) by scanning every segment's own radialrange"""
    best_min = (math.inf, None, None)
    best_max = (-math.inf, None, None)
    for i, s in enumerate(segs):
        (dmin, tmin), (dmax, tmax) = s.radialrange(z)
        if dmin < best_min[0]:
            best_min = (float(dmin), float(tmin), i)
        if dmax > best_max[0]:
            best_max = (float(dmax), float(tmax), i)
    return best_min, best_max


def all_pairs_intersections(segs1, segs2, tol=1e-12):
    """[(i, t1, j, t2)] from every segment pair's own intersect()"""
    out = []
    for i, a in enumerate(segs1):
        for j, b in enumerate(segs2):
            if a == b:
                continue
            for t1, t2 in a.intersect(b, tol=tol):
                out.append((i, float(t1), j, float(t2)))
    return out
