"""Shared constructions for the intersection properties C11 / C12 (and C14):
placing a curve B so that it crosses a curve A transversally at prescribed
parameters, exact crossing counts of Line x Bezier pairs over Q, and an
independent dense search for close approaches."""
import cmath
import math
from fractions import Fraction

import numpy as np

from mc import alphabets as AB
from mc.exact import F, QPoly, bezier_to_qpoly
from mc.enc import seg_size

from svgpathtools import Line, QuadraticBezier, CubicBezier, Arc, Path


SHAPES = ['L_diagonal', 'L_horizontal', 'Q_generic', 'Q_collinear_nofold', 'Q_nondyadic',
          'C_arch', 'C_sshape', 'C_loop', 'C_axis_line_shaped', 'C_monotone',
          'A_circle_small_ccw', 'A_circle_large_cw', 'A_ellipse_3to1', 'A_ellipse_rot30', 'A_rot400', 'A_rot180_large', 'A_cw_large_rot30']


def is_circ_unrot(seg):
    return isinstance(seg, Arc) and seg.rotation == 0 and seg.radius.real == seg.radius.imag


def tangent(seg, t):
    """direction of travel at t from finite differences of point() (independent of derivative())"""
    h = 1e-6
    a, b = max(0.0, t - h), min(1.0, t + h)
    d = seg.point(b) - seg.point(a)
    return d / abs(d)


def place(bname, tB, A, tA, alpha_deg, scale=1.0):
    """B moved by a rigid motion so that B(tB) = A(tA) and the angle from A's tangent to B's is alpha"""
    B0 = AB.make(bname, scale)
    pa = A.point(tA)
    ta = tangent(A, tA)
    tb = tangent(B0, tB)
    w = ta * cmath.exp(1j * math.radians(alpha_deg)) / tb
    w /= abs(w)
    pb = B0.point(tB)
    f = lambda z: (z - pb) * w + pa
    if isinstance(B0, Arc):
        circ = B0.radius.real == B0.radius.imag
        rot = 0.0 if circ else B0.rotation + math.degrees(cmath.phase(w))
        return Arc(f(B0.start), B0.radius, rot, B0.large_arc, B0.sweep, f(B0.end))
    pts = [f(p) for p in B0.bpoints()]
    return type(B0)(*pts)


def dense(seg, n):
    ts = np.linspace(0.0, 1.0, n)
    return ts, np.array([seg.point(t) for t in ts])


def other_approach_near(A, B, tA, tB, window=0.05, n=201):
    """independent neighbourhood search: is there a second close approach of the two curves
    within parameter distance `window` of (tA, tB)?  Samples the window densely and counts
    connected clusters of near-contact."""
    ta = np.linspace(max(0, tA - window), min(1, tA + window), n)
    tb = np.linspace(max(0, tB - window), min(1, tB + window), n)
    PA = np.array([A.point(t) for t in ta])
    PB = np.array([B.point(t) for t in tb])
    D = np.abs(PA[:, None] - PB[None, :])
    size = max(seg_size(A), seg_size(B))
    step = max(np.abs(np.diff(PA)).max(), np.abs(np.diff(PB)).max())
    close = D < 1.5 * step
    # cluster along the A parameter: indices of rows having a close cell, split on gaps
    rows = np.where(close.any(axis=1))[0]
    if len(rows) == 0:
        return True     # the prescribed crossing itself not seen: do not admit
    clusters = 1 + int((np.diff(rows) > 3).sum())
    cols = np.where(close.any(axis=0))[0]
    clusters_b = 1 + int((np.diff(cols) > 3).sum())
    return clusters > 1 or clusters_b > 1


def min_distance_elsewhere(A, B, tA, tB, window=0.05, n=301):
    ta, PA = dense(A, n)
    tb, PB = dense(B, n)
    D = np.abs(PA[:, None] - PB[None, :])
    mask = (np.abs(ta[:, None] - tA) < window) & (np.abs(tb[None, :] - tB) < window)
    D = np.where(mask, np.inf, D)
    return float(D.min())


def loop_node(seg, n=400):
    """parameters (t, s), t < s, of a self-intersection of a Bezier segment, or None"""
    ts = np.linspace(0, 1, n + 1)
    P = np.array([seg.point(t) for t in ts])
    D = np.abs(P[:, None] - P[None, :])
    I, J = np.indices(D.shape)
    D = np.where(J - I < n // 10, np.inf, D)
    i, j = np.unravel_index(np.argmin(D), D.shape)
    if D[i, j] > 4 * np.abs(np.diff(P)).max():
        return None
    t, s_ = ts[i], ts[j]
    h = 1e-7
    for _ in range(60):             # Newton on F(t, s) = B(t) - B(s)
        F = seg.point(t) - seg.point(s_)
        dt = (seg.point(t + h) - seg.point(t - h)) / (2 * h)
        ds = -(seg.point(s_ + h) - seg.point(s_ - h)) / (2 * h)
        det = dt.real * ds.imag - dt.imag * ds.real
        if det == 0:
            return None
        a = (-F.real * ds.imag + F.imag * ds.real) / det
        b = (-dt.real * F.imag + dt.imag * F.real) / det
        t, s_ = t + a, s_ + b
        if abs(a) + abs(b) < 1e-15:
            break
    if not (0 < t < s_ < 1) or abs(seg.point(t) - seg.point(s_)) > 1e-9:
        return None
    return float(t), float(s_)


# ---------------------------------------------------------------- exact counts (Line x Bezier)

def exact_line_bezier_count(bez_pts, l0, l1):
    """number of t in (0,1) where the Bezier meets the open segment l0-l1, or None when the pair
    is not in general position (root at an end, tangency, crossing at a segment end, undecidable)."""
    xs = [F(complex(p).real) for p in bez_pts]
    ys = [F(complex(p).imag) for p in bez_pts]
    X, Y = bezier_to_qpoly(xs), bezier_to_qpoly(ys)
    ax, ay = F(l0.real), F(l0.imag)
    dx, dy = F(l1.real) - ax, F(l1.imag) - ay
    if dx == 0 and dy == 0:
        return None
    # g(t) = cross(B(t) - l0, d) ; u(t) = dot(B(t) - l0, d) / |d|^2
    g = (X - QPoly([ax])) * dy - (Y - QPoly([ay])) * dx
    u = ((X - QPoly([ax])) * dx + (Y - QPoly([ay])) * dy) * (1 / (dx * dx + dy * dy))
    if g.is_zero():
        return None                      # Bezier lies on the line
    if g(0) == 0 or g(1) == 0:
        return None
    if g.deg() >= 1 and g.gcd(g.deriv()).deg() >= 1:
        return None                      # repeated root: tangency
    count = 0
    for lo, hi in g.isolate(0, 1, width=Fraction(1, 2 ** 80)):
        ulo, uhi = u(lo), u(hi)
        inside = (0 < ulo < 1) and (0 < uhi < 1)
        outside = (ulo < 0 and uhi < 0) or (ulo > 1 and uhi > 1)
        margin = Fraction(1, 10 ** 6)
        if inside and min(ulo, uhi) > margin and max(ulo, uhi) < 1 - margin:
            if not (margin < lo and hi < 1 - margin):
                return None
            count += 1
        elif outside and (max(ulo, uhi) < -margin or min(ulo, uhi) > 1 + margin):
            continue
        else:
            return None
    return count


def exact_line_line_count(a0, a1, b0, b1):
    return exact_line_bezier_count([a0, a1], b0, b1)


# ---------------------------------------------------------------- long paths: grids of crossings

# (number of strokes in the comb, number of rungs): the products bracket 256 and 4096 segment pairs
GRID_SIZES_QUICK = [(1, 1), (3, 2), (15, 17), (16, 16), (17, 16), (8, 32), (33, 8), (1, 257), (64, 64), (63, 65), (70, 60)]
GRID_SIZES_THOROUGH = GRID_SIZES_QUICK + [(2, 128), (128, 2), (5, 52), (31, 33), (32, 32), (100, 41), (41, 100), (128, 128), (1, 4097)]


def grid_paths(n_comb, n_rungs, kinds, long_stroke):
    """a comb of n_comb near-vertical strokes and n_rungs near-horizontal rungs crossing all of them
    transversally, strictly inside both; every stroke / rung is its own sub-path (discontinuous paths).
    long_stroke: one stroke of the comb is replaced by a long slanted one spanning ~30 columns."""
    from mc import longpaths as LP
    if long_stroke == 'over_zigzag':
        # one long stroke (somewhere in the middle of a path of otherwise short, far-away segments)
        # crossing every segment of a zigzag of short segments
        zig = LP.zigzag(n_comb, kinds, amp=1.0, step=1.0, start=0j)
        lo = min(s.start.imag for s in zig)
        stroke = Line(complex(-1.0, lo + 0.4137), complex(n_comb + 1.0, lo + 0.4137 + 0.2))
        others = LP.zigzag(max(n_rungs - 1, 0), 'L', amp=0.5, step=1.0, start=complex(n_comb / 3.0, lo + 8.0))
        k = len(others) // 2
        return Path(*zig), Path(*(others[:k] + [stroke] + others[k:]))
    if long_stroke == 'far_fine':
        # a fine hatch (pitch 0.375) far from the origin: neighbouring crossings are closer together than
        # 1e-5 of their distance from the origin
        far = complex(4.0e4, 3.0e4)
        comb = LP.comb(n_comb, height=3.0, step=0.375, start=far, kinds=kinds)
        x_hi = max(max(s_.start.real, s_.end.real) for s_ in comb) + 0.2
        rungs = [Line(complex(far.real - 0.2, far.imag + 0.3 + 2.2 * (j + 0.37) / n_rungs),
                      complex(x_hi, far.imag + 0.3 + 2.2 * (j + 0.37) / n_rungs + 0.011 * (1 + j % 4))) for j in range(n_rungs)]
        return Path(*comb), Path(*rungs)
    comb = LP.comb(n_comb, kinds=kinds, with_long=(n_comb // 2) if long_stroke and n_comb > 2 else None)
    x_hi = max(max(s.start.real, s.end.real) for s in comb) + 0.537
    rungs = LP.rungs(n_rungs, x1=x_hi, kinds=kinds)
    return Path(*comb), Path(*rungs)


def check_grid(n_comb, n_rungs, kinds, long_stroke, acc, clauses, prop):
    """Path.intersect on the two grid paths, both orders, against the reduction over all segment pairs
    (the segment-level solvers are decided elsewhere).  clauses: 'count' (C12: nothing missed, nothing
    twice), 'coherent' (C11: every reported T belongs to the reported (segment, t) and the points agree)."""
    from mc.enc import outcome
    comb, rungs = grid_paths(n_comb, n_rungs, kinds, long_stroke)
    case = {'what': 'grid', 'n_comb': n_comb, 'n_rungs': n_rungs, 'kinds': kinds, 'long_stroke': long_stroke}
    pairs = n_comb * n_rungs
    cls = 'grid/%s' % ('ge4096' if pairs >= 4096 else 'ge256' if pairs >= 256 else 'lt256')
    acc.case(case, cls=cls, nontrivial=pairs > 1)
    for order, a, b in (('comb_rungs', comb, rungs), ('rungs_comb', rungs, comb)):
        sig = {'pair': 'paths', 'grid': cls.split('/')[1], 'order': order, 'long_stroke': long_stroke if isinstance(long_stroke, str) else bool(long_stroke)}
        c = dict(case, order=order)
        sa, sb = list(a), list(b)
        want = {}
        for i, s1 in enumerate(sa):
            for j, s2 in enumerate(sb):
                for t1, t2 in s1.intersect(s2):
                    want.setdefault((i, j), []).append((float(t1), float(t2)))
        r = outcome(lambda: a.intersect(b))
        if r[0] != 'ok':
            acc.violation('intersect_raises', dict(sig, exc=r[1]), c, observed=r)
            continue
        got = {}
        bad = None
        for (T1, seg1, t1), (T2, seg2, t2) in r[1]:
            i = next((k for k, s in enumerate(sa) if s is seg1), None)
            j = next((k for k, s in enumerate(sb) if s is seg2), None)
            if i is None or j is None:
                bad = bad or ('segment_not_in_path', [repr(seg1), repr(seg2)], None)
                continue
            got.setdefault((i, j), []).append((float(t1), float(t2)))
            if 'coherent' in clauses and bad is None:
                size = 1.0 + abs(a.point(0.0)) + abs(a.point(1.0))
                if not (abs(a.point(T1) - seg1.point(t1)) <= 1e-6 * size and abs(b.point(T2) - seg2.point(t2)) <= 1e-6 * size):
                    bad = ('T_not_coherent_with_segment_and_t', [T1, i, t1, T2, j, t2],
                           [a.point(T1), seg1.point(t1), b.point(T2), seg2.point(t2)])
                elif not abs(a.point(T1) - b.point(T2)) <= 1e-5 * size:
                    bad = ('reported_points_differ', [T1, T2], [a.point(T1), b.point(T2)])
        if bad and 'coherent' in clauses:
            acc.violation(bad[0], sig, c, observed=bad[1], expected=bad[2])
        if 'count' in clauses:
            missing = [k for k in want if len(got.get(k, [])) < len(want[k])]
            extra = [k for k in got if len(got[k]) > len(want.get(k, []))]
            if missing:
                acc.violation('crossing_missed', sig, c, observed='%d segment pairs with fewer reports than their own intersect()' % len(missing),
                              expected='e.g. pair %r: %r' % (missing[0], want[missing[0]]),
                              detail='%d crossings expected, %d reported' % (sum(map(len, want.values())), len(r[1])))
            elif extra:
                acc.violation('crossing_reported_more_than_once', sig, c, observed='pair %r: %r' % (extra[0], got[extra[0]]),
                              expected=want.get(extra[0], []))
