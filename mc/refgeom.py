"""Independent reference geometry (numpy / math only; nothing from svgpathtools):
Bezier subdivision brackets for arc length, Gauss-Legendre quadrature,
W3C F.6.5 arc centre parameterisation, arc length brackets, dense distances."""
import math
from fractions import Fraction

import numpy as np

from mc.exact import QPoly, F, bezier_to_qpoly


# ---------------------------------------------------------------- Beziers

def de_casteljau(pts, t):
    pts = [complex(p) for p in pts]
    n = len(pts)
    for r in range(1, n):
        pts = [(1 - t) * pts[i] + t * pts[i + 1] for i in range(n - r)]
    return pts[0]


def subcurve(pts, t0, t1):
    """control points of the curve restricted to [t0, t1] (blossoming)"""
    pts = [complex(p) for p in pts]
    n = len(pts) - 1
    out = []
    for i in range(n + 1):
        # blossom with (n-i) copies of t0 and i copies of t1
        q = list(pts)
        args = [t0] * (n - i) + [t1] * i
        for r, u in enumerate(args):
            q = [(1 - u) * q[j] + u * q[j + 1] for j in range(len(q) - 1)]
        out.append(q[0])
    return out


def bezier_length_bracket(pts, t0=0.0, t1=1.0, depth=10):
    """(lower, upper): sum of chords <= arc length <= sum of control polygon lengths
    after 2**depth uniform subdivisions of [t0, t1]."""
    if t0 == t1:
        return 0.0, 0.0
    P = np.array([subcurve(pts, t0, t1)], dtype=complex)      # (1, n+1)
    for _ in range(depth):
        n1 = P.shape[1]
        left = [P[:, 0]]
        right = [P[:, -1]]
        Q = P
        for r in range(1, n1):
            Q = 0.5 * (Q[:, :-1] + Q[:, 1:])
            left.append(Q[:, 0])
            right.append(Q[:, -1])
        L = np.stack(left, axis=1)
        R = np.stack(right[::-1], axis=1)
        P = np.concatenate([L, R], axis=0)
    chords = np.abs(P[:, -1] - P[:, 0]).sum()
    polys = np.abs(np.diff(P, axis=1)).sum()
    return float(chords), float(polys)


_GL = np.polynomial.legendre.leggauss(8)


def bezier_length_quadrature(pts, t0=0.0, t1=1.0, panels=2048):
    """composite 8-point Gauss-Legendre of |B'(t)|"""
    if t0 == t1:
        return 0.0
    pts = np.array([complex(p) for p in pts])
    n = len(pts) - 1
    if n == 0:
        return 0.0
    d = n * np.diff(pts)          # control points of the derivative (degree n-1)
    edges = np.linspace(t0, t1, panels + 1)
    a, b = edges[:-1], edges[1:]
    x, w = _GL
    t = (0.5 * (b - a))[:, None] * x[None, :] + (0.5 * (a + b))[:, None]
    # evaluate derivative Bezier by de Casteljau (vectorised)
    q = [np.full(t.shape, c, dtype=complex) for c in d]
    for r in range(1, len(d)):
        q = [(1 - t) * q[i] + t * q[i + 1] for i in range(len(q) - 1)]
    speed = np.abs(q[0])
    return float(((0.5 * (b - a))[:, None] * w[None, :] * speed).sum())


def speed_zero_in(pts, t0, t1):
    """exact: does B'(t) vanish somewhere in [t0, t1]?  (pts are floats, hence rationals)"""
    xs = [F(complex(p).real) for p in pts]
    ys = [F(complex(p).imag) for p in pts]
    dx = bezier_to_qpoly(xs).deriv()
    dy = bezier_to_qpoly(ys).deriv()
    if dx.is_zero() and dy.is_zero():
        return True
    g = dx.gcd(dy) if not dx.is_zero() and not dy.is_zero() else (dy if dx.is_zero() else dx)
    if g.deg() <= 0:
        return False
    return len(g.isolate(F(t0), F(t1), width=Fraction(1, 2 ** 20))) > 0


def near_speed_zero(pts, t0, t1, rel=1e-6):
    """numeric: the minimum of |B'| over [t0,t1] (dense sample + local ternary
    refinement around the smallest sample) is tiny relative to the maximum"""
    pts = [complex(p) for p in pts]
    n = len(pts) - 1
    d = [n * (pts[i + 1] - pts[i]) for i in range(n)]
    if len(d) == 1:
        return abs(d[0]) == 0
    f = lambda t: abs(de_casteljau(d, t))
    ts = np.linspace(t0, t1, 2049)
    v = np.array([f(t) for t in ts])
    vmax = max(v.max(), 1e-300)
    i = int(v.argmin())
    lo, hi = ts[max(i - 1, 0)], ts[min(i + 1, len(ts) - 1)]
    for _ in range(80):
        m1, m2 = lo + (hi - lo) / 3, hi - (hi - lo) / 3
        if f(m1) < f(m2):
            hi = m2
        else:
            lo = m1
    return min(v.min(), f((lo + hi) / 2)) <= rel * vmax


# ---------------------------------------------------------------- arcs (W3C implementation notes F.6.5 / F.6.6)

def arc_center_params(start, radius, rotation, large_arc, sweep, end):
    x1, y1 = start.real, start.imag
    x2, y2 = end.real, end.imag
    rx, ry = abs(radius.real), abs(radius.imag)
    phi = math.radians(rotation % 360.0) if rotation == rotation else rotation
    phi = math.radians(rotation)
    c, s = math.cos(phi), math.sin(phi)
    dx2, dy2 = (x1 - x2) / 2.0, (y1 - y2) / 2.0
    x1p = c * dx2 + s * dy2
    y1p = -s * dx2 + c * dy2
    lam = (x1p * x1p) / (rx * rx) + (y1p * y1p) / (ry * ry)
    scaled = False
    if lam > 1:
        f = math.sqrt(lam)
        rx, ry = f * rx, f * ry
        scaled = True
    num = rx * rx * ry * ry - rx * rx * y1p * y1p - ry * ry * x1p * x1p
    den = rx * rx * y1p * y1p + ry * ry * x1p * x1p
    co = math.sqrt(max(0.0, num / den))
    if bool(large_arc) == bool(sweep):
        co = -co
    cxp = co * (rx * y1p / ry)
    cyp = co * (-(ry * x1p / rx))
    cx = c * cxp - s * cyp + (x1 + x2) / 2.0
    cy = s * cxp + c * cyp + (y1 + y2) / 2.0

    def ang(ux, uy, vx, vy):
        return math.degrees(math.atan2(ux * vy - uy * vx, ux * vx + uy * vy))
    ux, uy = (x1p - cxp) / rx, (y1p - cyp) / ry
    vx, vy = (-x1p - cxp) / rx, (-y1p - cyp) / ry
    theta1 = ang(1.0, 0.0, ux, uy)
    dtheta = ang(ux, uy, vx, vy)
    if not sweep and dtheta > 0:
        dtheta -= 360.0
    elif sweep and dtheta < 0:
        dtheta += 360.0
    return {'rx': rx, 'ry': ry, 'lambda': lam, 'scaled': scaled, 'center': complex(cx, cy),
            'theta1': theta1, 'dtheta': dtheta, 'phi': phi}


def arc_point(par, t):
    a = math.radians(par['theta1'] + t * par['dtheta'])
    c, s = math.cos(par['phi']), math.sin(par['phi'])
    x = par['rx'] * math.cos(a)
    y = par['ry'] * math.sin(a)
    return complex(c * x - s * y + par['center'].real, s * x + c * y + par['center'].imag)


def arc_derivative(par, t, n):
    """n-th derivative wrt t of arc_point"""
    k = math.radians(par['dtheta']) ** n
    a = math.radians(par['theta1'] + t * par['dtheta']) + n * math.pi / 2.0
    c, s = math.cos(par['phi']), math.sin(par['phi'])
    x = par['rx'] * math.cos(a)
    y = par['ry'] * math.sin(a)
    return k * complex(c * x - s * y, s * x + c * y)


def arc_length_bracket(par, t0=0.0, t1=1.0, pieces=4096):
    """(lower, upper) from chords and tangent polygons of equal eccentric-angle pieces"""
    if t0 == t1:
        return 0.0, 0.0
    a0 = math.radians(par['theta1'] + t0 * par['dtheta'])
    a1 = math.radians(par['theta1'] + t1 * par['dtheta'])
    th = np.linspace(a0, a1, pieces + 1)
    c, s = math.cos(par['phi']), math.sin(par['phi'])

    def pt(cx, cy):
        x = par['rx'] * cx
        y = par['ry'] * cy
        return (c * x - s * y) + 1j * (s * x + c * y)
    P = pt(np.cos(th), np.sin(th))
    lower = np.abs(np.diff(P)).sum()
    mid = 0.5 * (th[:-1] + th[1:])
    half = 0.5 * (th[1:] - th[:-1])
    X = pt(np.cos(mid) / np.cos(half), np.sin(mid) / np.cos(half))
    upper = (np.abs(X - P[:-1]) + np.abs(P[1:] - X)).sum()
    return float(lower), float(upper)


def ellipse_residual(par, z):
    """(x'/rx)^2 + (y'/ry)^2 - 1 for the point z in the ellipse's frame"""
    c, s = math.cos(par['phi']), math.sin(par['phi'])
    d = z - par['center']
    xp = c * d.real + s * d.imag
    yp = -s * d.real + c * d.imag
    return (xp / par['rx']) ** 2 + (yp / par['ry']) ** 2 - 1.0


def eccentric_angle(par, z):
    c, s = math.cos(par['phi']), math.sin(par['phi'])
    d = z - par['center']
    xp = c * d.real + s * d.imag
    yp = -s * d.real + c * d.imag
    return math.degrees(math.atan2(yp / par['ry'], xp / par['rx']))
