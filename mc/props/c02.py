"""C02  parse_path implements the SVG path-data semantics for every command sequence.

Product mode: ALL programs  M0 c1 .. cK  (M0 in {M,m}, ci in the 20 command
letters) up to the stated K, each with arguments from a fixed rotating pool,
each spelled in every lexical style; the real parser's output is compared with
the independent interpreter of mc/refsvg.py.  The abstract parser state graph
(previous-command class x pen-at-subpath-start x subpath-has-segments) is
recorded while enumerating, so the evidence also reports states/transitions.
"""
import itertools
import math

from mc import core, refsvg
from mc.enc import seg2j, outcome

from svgpathtools import parse_path, Line, QuadraticBezier, CubicBezier, Arc, Path

ID = 'C02'
LEVEL = 'model_checking'
RULE = ('all command programs over the 20 letters up to length K after the initial moveto x argument '
        'rotations x lexical styles; each program is executed on the real parser and on the reference '
        'interpreter; a case (program, rotation, style) is non-trivial when the program contains at '
        'least one drawing command; distinct = distinct rendered d-string')
ASSUMPTIONS = [
    'mc/refsvg.py is the specification oracle (self-checked: its recogniser must reproduce every program from every rendered spelling)',
    'argument values come from a fixed pool; number syntax is covered by styles, number values are not enumerated',
    'arcs whose end equals their start are outside the alphabet (spec: omitted), trailing-dot numbers excluded',
]

LETTERS = 'MmZzLlHhVvCcSsQqTtAa'

COORDS = [1.0, -2.0, 3.5, 0.25, -0.75, 10.0, 7.5, -4.0, 0.1, 2.3, -6.7, 12.5, 100.0, -0.001,
          5e-07, 31.0, -17.25, 0.6, 44.0, -9.5, 8.125, 1e-05, -3.3, 60.0, 0.2, 19.0, -28.0, 2.75,
          1.5e+16, -0.3, 6.0, 13.0, 15.5, -11.0, 0.7, 21.0, 5.5, -1.25, 9.0, 0.9]
RADII = [(2.0, 0.5), (1e-09, 2e-09), (25.0, 30.0), (0.001, 0.002), (0.0, 3.0), (40.0, 20.0), (3.0, 0.0), (7.0, 7.0)]
ROTS = [0.0, 30.0, -45.0, 90.0, 400.0, 12.5]
FLAGS = [(0, 1), (1, 0), (1, 1), (0, 0)]


def args_for(letter, pos, rot):
    up = letter.upper()
    n = refsvg.NARGS[up]
    if up == 'Z':
        return []
    base = rot * 13 + pos * 7

    def c(j):
        return COORDS[(base + j * 3) % len(COORDS)]
    if up == 'A':
        rx, ry = RADII[(rot + pos) % len(RADII)]
        r = ROTS[(rot * 2 + pos) % len(ROTS)]
        la, sw = FLAGS[(rot + pos * 3) % len(FLAGS)]
        return [rx, ry, r, la, sw, c(0), c(1)]
    return [c(j) for j in range(n)]


def make_program(first, letters, rot):
    prog = [(first, args_for(first, 0, rot))]
    for i, l in enumerate(letters):
        prog.append((l, args_for(l, i + 1, rot)))
    return prog


def tier_params(tier, seed):
    if tier == 'quick':
        return {'K_spaced': 4, 'K_styles': 3, 'rots': sorted({0, 1, 2 + seed % 5})}
    return {'K_spaced': 5, 'K_styles': 4, 'rots': list(range(7))}


def shards(tier, seed):
    tp = tier_params(tier, seed)
    out = []
    for rot in tp['rots']:
        for first in 'Mm':
            for l1 in LETTERS:
                out.append({'rot': rot, 'first': first, 'l1': l1})
    out += [{'what': 'long_runs', 'k': k, 'of': 16} for k in range(16)]
    out.append({'what': 'near_return'})
    return out


# ---------------------------------------------------------------- comparison

def ulps(vals):
    m = max([abs(v) for v in vals] + [1e-300])
    return 4 * math.ulp(m)


def seg_matches(seg, ref):
    """library segment vs reference abstract segment -> None or reason"""
    k = ref[0]
    cls = {'L': Line, 'Q': QuadraticBezier, 'C': CubicBezier, 'A': Arc}[k]
    if type(seg) is not cls:
        return 'class %s != %s' % (type(seg).__name__, cls.__name__)
    if k == 'A':
        _, p0, rx, ry, rot, la, sw, p1 = ref
        pts = [(seg.start, p0), (seg.end, p1)]
        if bool(seg.large_arc) != la or bool(seg.sweep) != sw:
            return 'arc flags'
        if seg.rotation != rot:
            return 'arc rotation'
        lam = refsvg.arc_lambda(ref)
        if lam > 1 + 1e-12:
            f = math.sqrt(lam)
            erx, ery = rx * f, ry * f
            rt = 1e-12
        elif lam < 1 - 1e-12:
            erx, ery, rt = rx, ry, 0.0
        else:
            erx, ery, rt = rx, ry, 1e-11
        if abs(seg.radius.real - erx) > rt * erx or abs(seg.radius.imag - ery) > rt * ery:
            return 'arc radius %r != (%r,%r)' % (seg.radius, erx, ery)
    else:
        pts = list(zip(seg.bpoints(), ref[1:]))
    allv = [abs(complex(a)) for a, b in pts] + [abs(b) for a, b in pts]
    tol = ulps(allv)
    for a, b in pts:
        if abs(complex(a) - b) > tol:
            return 'point %r != %r' % (a, b)
    return None


def compare(d, refsegs):
    """-> (kind, detail) or None"""
    r = outcome(lambda: parse_path(d))
    if r[0] == 'exc':
        return ('raises:' + r[1], r[1])
    p = r[1]
    if len(p) != len(refsegs):
        return ('segment_count', '%d != %d' % (len(p), len(refsegs)))
    for i, (s, rs) in enumerate(zip(p, refsegs)):
        m = seg_matches(s, rs)
        if m:
            return ('segment_mismatch', 'segment %d: %s' % (i, m))
    return None


def abstract_state(prog_prefix_segs, prog):
    """(class of previous command, pen at subpath start?, subpath has segments?)"""
    last = prog[-1][0].upper()
    cls = {'M': 'move', 'Z': 'close', 'L': 'line', 'H': 'line', 'V': 'line', 'C': 'cubic',
           'S': 'cubic', 'Q': 'quad', 'T': 'quad', 'A': 'arc'}[last]
    return cls


def shortest_failing_prefix(prog, style, kind):
    for n in range(1, len(prog) + 1):
        sub = prog[:n]
        try:
            ref = refsvg.interpret(sub)
        except refsvg.Ungrammatical:
            continue
        c = compare(refsvg.render(sub, style), ref)
        if c is not None and c[0] == kind:
            return sub
    return prog


def check_program(prog, rot, styles, acc):
    try:
        ref = refsvg.interpret(prog)
    except refsvg.Ungrammatical:
        acc.filt('ungrammatical')
        return
    # arcs that end where they start are outside the alphabet
    for s in ref:
        if s[0] in 'AL' and s[1] == s[-1] and s[0] == 'A':
            acc.filt('arc_end_equals_start')
            return
    letters = ''.join(l for l, _ in prog)
    drawing = any(l.upper() not in 'MZ' for l in letters)
    kinds = ''.join(sorted(set(s[0] for s in ref)))
    parsed = {}
    spelled = set()
    for style in styles:
        d = refsvg.render(prog, style)
        # harness self-check: the reference recogniser must read the spelling back
        back = refsvg.parse(d)
        if back != prog:
            raise AssertionError('renderer/recogniser disagree: %r -> %r != %r' % (d, back, prog))
        acc.case(d, cls='style:%s' % style, nontrivial=drawing and d not in spelled, unique=True)
        spelled.add(d)
        acc.traces += 1
        c = compare(d, ref)
        if c is None:
            parsed[style] = d
            continue
        sub = shortest_failing_prefix(prog, style, c[0])
        subl = ''.join(l for l, _ in sub)
        bigram = subl[-2:].upper() if len(subl) >= 2 else subl.upper()
        sig = {'what': c[0], 'bigram': bigram, 'relative_last': subl[-1].islower()}
        if style != 'spaced' and 'spaced' in parsed:
            sig['style'] = style
            if style in ('arcflags', 'minimal') and 'A' in subl.upper():
                sig['bigram'] = 'A'
                sig.pop('relative_last')
        acc.violation('parse_differs_from_reference', sig,
                      {'program': sub, 'style': style}, observed=c[1],
                      expected=[list(map(core.jz, s[1:])) for s in refsvg.interpret(sub)],
                      detail='d=%r' % refsvg.render(sub, style))
    # two parses of the same string are independent objects: editing the first result in place
    # must not change what the string parses to the second time
    if 'spaced' in parsed and drawing:
        d0 = parsed['spaced']
        first = parse_path(d0)
        for sg in first:
            sg.start = 12345.5 - 0.25j
            sg.end = -777.0 + 3j
            if hasattr(sg, 'control1'):
                sg.control1 = sg.control2 = 9j
            if hasattr(sg, 'control'):
                sg.control = 9j
        del first[:]
        c2 = compare(d0, ref)
        if c2 is not None:
            acc.violation('second_parse_of_same_string_differs', {'what': c2[0]}, {'program': prog, 'style': 'spaced', 'twice': True},
                          observed=c2[1], detail='d=%r parsed again after editing the first result in place' % d0)
    # the parser's other entry points and its optional arguments: an initial pen position (the leading moveto,
    # if relative, is relative to it - documented), an xml element to remember, the Path constructor itself
    if 'spaced' in parsed and len(prog) <= ENTRY_FORMS_MAX_LEN:
        check_entry_forms(prog, parsed['spaced'], acc)
    # lexically different spellings parse to equal paths
    if len(parsed) > 1:
        items = list(parsed.items())
        p0 = parse_path(items[0][1])
        for st, d in items[1:]:
            if not (parse_path(d) == p0):
                acc.violation('spellings_parse_unequal', {'style': st},
                              {'program': prog, 'style': st, 'other_style': items[0][0]},
                              observed=d, expected=items[0][1])
    acc.seen('kinds:' + kinds)


ENTRY_FORMS_MAX_LEN = 4
ENTRY_PENS = [3.5 - 2.25j, 0j, -1000.0 + 7j, 0.1 + 0.2j]


def entry_forms(z):
    import xml.etree.ElementTree as ET
    el = ET.Element('path')
    return [('parse_path(d, current_pos=z)', lambda d: parse_path(d, current_pos=z)),
            ('parse_path(d, z)', lambda d: parse_path(d, z)),
            ('Path(d, z)', lambda d: Path(d, z)),
            ('Path(d, current_pos=z)', lambda d: Path(d, current_pos=z)),
            ('parse_path(d, current_pos=z, tree_element=el)', lambda d: parse_path(d, current_pos=z, tree_element=el)),
            ('parse_path(d, z, el)', lambda d: parse_path(d, z, el)),
            ('parse_path(d, tree_element=el) [pen 0]', lambda d: parse_path(d, tree_element=el))]


def check_entry_forms(prog, d, acc, only=None):
    for z in ENTRY_PENS:
        try:
            ref = refsvg.interpret(prog, current=z)
        except refsvg.Ungrammatical:
            return
        for name, fn in entry_forms(z):
            zz = z
            if name.endswith('[pen 0]'):
                if z != ENTRY_PENS[0]:
                    continue
                zz = 0j
                ref_ = refsvg.interpret(prog)
            else:
                ref_ = ref
            if only and (only['entry'], only['pen']) != (name, core.jz(z)):
                continue
            case = {'program': prog, 'style': 'spaced', 'entry': name, 'pen': core.jz(z)}
            acc.case((d, name, core.jz(z)), cls='entry:%s' % name.split('(')[0] + ('/relative_first' if prog[0][0] == 'm' else '/absolute_first'),
                     nontrivial=len(ref_) > 0, unique=True)
            r = outcome(lambda: fn(d))
            sig = {'entry': name, 'first_moveto': 'relative' if prog[0][0] == 'm' else 'absolute', 'pen_is_origin': zz == 0}
            if r[0] != 'ok':
                acc.violation('parse_differs_from_reference', dict(sig, what='raises:' + r[1]), case, observed=r)
                continue
            pth = r[1]
            bad = None
            if len(pth) != len(ref_):
                bad = ('segment_count', '%d != %d' % (len(pth), len(ref_)))
            else:
                for i, (sg, rs) in enumerate(zip(pth, ref_)):
                    m = seg_matches(sg, rs)
                    if m:
                        bad = ('segment_mismatch', 'segment %d: %s' % (i, m))
                        break
            if bad:
                acc.violation('parse_differs_from_reference', dict(sig, what=bad[0]), case, observed=bad[1],
                              expected=[list(map(core.jz, s_[1:])) for s_ in ref_], detail='d=%r' % d)


TAME = [1.0, -2.0, 3.5, 0.25, -0.75, 0.1, 2.3, -6.7, 0.6, -3.3, 0.2, 2.75, -0.3, 0.7, 5.5, -1.25, 0.9]
RUN_LENGTHS_QUICK = [2, 3, 31, 32, 33, 63, 64, 65, 127, 128, 129, 200]
RUN_LENGTHS_THOROUGH = sorted(set(RUN_LENGTHS_QUICK + list(range(2, 70)) + [255, 256, 257, 500, 1000]))


def long_run_programs(tier):
    """one command letter repeated N times (written once, the other N-1 implied, in the letter-dropping
    styles) for N bracketing the powers of two - a vectorised fast path for long runs has a threshold -
    then a closepath and a relative lineto that shows where the pen ended up"""
    for N in (RUN_LENGTHS_QUICK if tier == 'quick' else RUN_LENGTHS_THOROUGH):
        for letter in 'LlHhVvCcSsQqTtAa':
            for first in 'Mm':
                for tail in ((), ('z', 'l')):
                    if tier == 'quick' and (letter.upper() in 'CSQTA' and N > 65 or first == 'm' and N not in (64, 65)):
                        continue
                    prog = [(first, [TAME[3], TAME[5]])]
                    k = 0
                    for i in range(N):
                        n = refsvg.NARGS[letter.upper()]
                        if letter.upper() == 'A':
                            args = [2.0 + (i % 3), 1.5, 30.0 * (i % 4), i % 2, (i // 2) % 2, TAME[(k) % len(TAME)] + 0.01 * i, TAME[(k + 1) % len(TAME)] - 0.02 * i]
                            k += 2
                        else:
                            args = [TAME[(k + j) % len(TAME)] + (0.001 * i if j == n - 1 else 0.0) for j in range(n)]
                            k += n
                        prog.append((letter, args))
                    for t in tail:
                        prog.append((t, [] if t == 'z' else [1.0, 2.0]))
                    yield prog


def near_return_programs():
    """relative moves whose float sum comes back to the start of the subpath only up to rounding
    (0.1 + 0.2 - 0.3 ...): the closepath still draws its (tiny) line, the pen is at the start afterwards"""
    sets = [[(0.1, 0.0), (0.2, 0.0), (-0.3, 0.0)], [(0.1, 0.7), (0.2, -0.4), (-0.3, -0.3)], [(0.0, 0.1), (0.0, 0.2), (0.0, -0.3)],
            [(1e-3, 0.3), (0.7, 0.6), (-0.701, -0.9)]]
    for vs in sets:
        for perm in itertools.permutations(vs):
            for start in ((0.1, 0.1), (0.0, 0.0), (1.0e3, -0.7)):
                for closer in 'zZ':
                    for tail in ((), (('l', [1.0, 2.0]),), (('m', [1.0, 2.0]), ('l', [3.0, 4.0])), (('t', [1.0, 1.0]),)):
                        for first in 'Mm':
                            prog = [(first, list(start))]
                            for v in perm:
                                if v[1] == 0.0:
                                    prog.append(('h', [v[0]]))
                                elif v[0] == 0.0:
                                    prog.append(('v', [v[1]]))
                                else:
                                    prog.append(('l', list(v)))
                            prog.append((closer, []))
                            prog += [(l, list(a)) for l, a in tail]
                            yield prog
                            # the same points spelled with 'l' only
                            yield [(first, list(start))] + [('l', list(v)) for v in perm] + [(closer, [])] + [(l, list(a)) for l, a in tail]


def coincidence_programs():
    """a RELATIVE command whose offset happens to equal the absolute pen position (x,y) -> (2x,2y): anything that
    compares a relative end point with the pen before adding the pen takes it for 'no movement'"""
    for pen in ((5.0, 5.0), (2.0, -3.0), (0.25, 7.5)):
        x, y = pen
        for first in 'Mm':
            yield [(first, [x, y]), ('a', [3.0, 3.0, 0.0, 0, 1, x, y])]
            yield [(first, [x, y]), ('a', [3.0, 2.0, 30.0, 1, 0, x, y]), ('l', [1.0, 1.0])]
            yield [(first, [x, y]), ('l', [x, y]), ('a', [9.0, 9.0, 0.0, 0, 1, 2 * x, 2 * y])]
            yield [(first, [x, y]), ('l', [x, y])]
            yield [(first, [x, y]), ('c', [1.0, 2.0, 3.0, 4.0, x, y]), ('s', [1.0, 1.0, 2 * x, 2 * y])]
            yield [(first, [x, y]), ('q', [1.0, 2.0, x, y]), ('t', [2 * x, 2 * y])]
            yield [(first, [x, y]), ('h', [x]), ('v', [y])]
            yield [(first, [x, y]), ('m', [x, y]), ('l', [2 * x, 2 * y]), ('z', [])]


REGIMES = ['tiny', 'far', 'hairline']


def regime_program(prog, kind):
    """the same command sequence as another drawing: 'tiny' - every length multiplied by 2^-30 (exactly); 'far' - the
    drawing moved by (2^20, 2^20) (absolute coordinates only; relative ones are offsets); 'hairline' - as far, and every
    length multiplied by 2^-10 as well (a small shape far from the origin: its features are ~1e-9 of its coordinates)"""
    k = {'tiny': 2.0 ** -30, 'far': 1.0, 'hairline': 2.0 ** -10}[kind]
    off = 0.0 if kind == 'tiny' else 2.0 ** 20
    out = []
    for letter, args in prog:
        up, a = letter.upper(), list(args)
        ab = off if letter.isupper() else 0.0
        if up == 'A':
            a = [a[0] * k, a[1] * k, a[2], a[3], a[4], a[5] * k + ab, a[6] * k + ab]
        elif up in 'HV':
            a = [a[0] * k + ab]
        elif up != 'Z':
            a = [x * k + ab for x in a]
        out.append((letter, a))
    return out


def run_shard(desc, tier, seed):
    acc = core.Acc()
    tp = tier_params(tier, seed)
    if desc.get('what') == 'near_return':
        for prog in coincidence_programs():
            check_program(prog, 0, ['spaced', 'implicit', 'minimal', 'comma'], acc)
            acc.seen('coincidence')
    if desc.get('what') == 'long_runs':
        for i, prog in enumerate(long_run_programs(tier)):
            if i % desc['of'] == desc['k']:
                check_program(prog, 0, ['spaced', 'implicit', 'minimal', 'comma'], acc)
                acc.seen('long_run')
        return acc
    if desc.get('what') == 'near_return':
        for prog in near_return_programs():
            check_program(prog, 0, ['spaced', 'implicit', 'minimal'], acc)
            acc.seen('near_return')
        return acc
    rot, first, l1 = desc['rot'], desc['first'], desc['l1']
    edges = set()
    for K in range(0, tp['K_spaced'] + 1):
        if K == 0:
            if l1 != LETTERS[0]:
                continue
            progs = [()]
        else:
            progs = ((l1,) + rest for rest in itertools.product(LETTERS, repeat=K - 1))
        styles = refsvg.STYLES if K <= tp['K_styles'] else ['spaced']
        for letters in progs:
            prog = make_program(first, letters, rot)
            check_program(prog, rot, styles, acc)
            if K <= 3:
                for rg in REGIMES:
                    check_program(regime_program(prog, rg), rot, ['spaced', 'minimal'], acc)
                    acc.seen('regime:' + rg)
            seq = [first] + list(letters)
            for a, b in zip(seq, seq[1:]):
                edges.add((a.upper(), b.upper()))
    acc.extra['abstract_edges'] = {'%s>%s' % e: 1 for e in edges}
    return acc


def expected_classes(tier):
    return ['style:%s' % s for s in refsvg.STYLES] + ['kinds:ACLQ', 'kinds:L', 'kinds:', 'long_run', 'near_return', 'coincidence']


def space(tier, seed):
    tp = tier_params(tier, seed)
    return {'letters': LETTERS, 'K_all_styles': tp['K_styles'], 'K_spaced_only': tp['K_spaced'],
            'argument_rotations': tp['rots'], 'styles': refsvg.STYLES,
            'long_runs': {'letters': 'LlHhVvCcSsQqTtAa', 'run_lengths': RUN_LENGTHS_QUICK if tier == 'quick' else RUN_LENGTHS_THOROUGH, 'styles': ['spaced', 'implicit', 'minimal', 'comma']},
            'near_return_programs': len(list(near_return_programs())),
            'programs_per_rotation': sum(2 * 20 ** k for k in range(tp['K_spaced'] + 1)),
            'abstract_state_graph': 'states = 10 command classes (letters upper-cased); transitions = ordered pairs of consecutive commands; all 2 + 10*10 are exercised (see abstract_edges)'}


def finalize(acc):
    e = acc.extra.get('abstract_edges', {})
    acc.extra['abstract_edges'] = sorted(e)
    acc.states = len(set(x.split('>')[0] for x in e) | set(x.split('>')[1] for x in e))
    acc.transitions = len(e)


def replay(case):
    acc = core.ReplayAcc()
    prog = [(l, a) for l, a in case['program']]
    if case.get('twice'):
        check_program(prog, 0, ['spaced'], acc)
        return acc.vlist
    if case.get('entry'):
        check_entry_forms(prog, refsvg.render(prog, 'spaced'), acc, only=case)
        return acc.vlist
    check_program(prog, 0, [case['style']] + ([case['other_style']] if 'other_style' in case else []), acc)
    return acc.vlist
