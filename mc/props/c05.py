"""C05  Path parameter T, segment parameter t and arc length fractions are coherent.

Product mode: all paths (words over a segment pool with very unequal lengths,
zero-length lines in non-leading positions, every joint exactly coincident /
1 ulp apart / far apart), plus the "k equal lines" families, each crossed with
a T alphabet made of every cumulative boundary value, its float neighbours,
interval midpoints, 0, 1 and their neighbours.
"""
import itertools
import math

from mc import core
from mc import alphabets as AB
from mc.enc import path2j, j2path, outcome

from svgpathtools import Line, QuadraticBezier, CubicBezier, Arc, Path
from svgpathtools.path import concatpaths

ID = 'C05'
LEVEL = 'exploration'
RULE = ('all words of length 1..n over the segment pool x joint relation per joint, plus equal-line families; '
        'one case per (path, T); non-trivial = path has >= 2 segments; distinct = distinct (path, T)')
ASSUMPTIONS = ['reference fractions are computed from the segments\' own length(); C06 decides length itself',
               'paths longer than n except the equal-lines families are not covered']
EPS = 2.0 ** -52

# offsets from the segment's start
POOL = [
    ('L1', 'L', [1 + 0j]),
    ('Ltiny', 'L', [0.0006 + 0.0008j]),
    ('Lbig', 'L', [600 - 800j]),
    ('Q', 'Q', [2 + 3j, 5 + 1j]),
    ('C', 'C', [1 + 2j, 3 + 2j, 4 + 0j]),
    # a long flat cubic that doubles back on itself: a one-pass quadrature or a shallow subdivision misjudges its length
    ('Chairpin', 'C', [-110 - 23j, 975 - 11j, 270 - 13j]),
    ('A', 'A', [3 + 1j, 30.0, False, True, 4 + 1j]),
    ('Z0', 'L', [0j]),
]
JOINTS = ['exact', 'ulp', 'far']


# drawing regimes: the same words a thousand million times smaller, and at ordinary size a million units from the origin
REGIMES = {'tiny': (1e-9, 0j), 'tinier': (1e-12, 0j), 'far': (1.0, 1.0e6 + 1.0e6j), 'huge': (1e9, 0j)}


def mkseg(entry, start, sc=1.0):
    name, k, o = entry
    if sc != 1.0:
        o = [x * sc if isinstance(x, complex) and not (k == 'A' and i_ in (1,)) else x for i_, x in enumerate(o)]
    if k == 'L':
        return Line(start, start + o[0])
    if k == 'Q':
        return QuadraticBezier(start, start + o[0], start + o[1])
    if k == 'C':
        return CubicBezier(start, start + o[0], start + o[1], start + o[2])
    return Arc(start, o[0], o[1], o[2], o[3], start + o[4])


def build(word, joints, regime=None):
    segs = []
    sc, sh = REGIMES[regime] if regime else (1.0, 0j)
    pen = (0.5 + 0.25j) * sc + sh
    for i, idx in enumerate(word):
        if i == 0:
            start = pen
        else:
            j = joints[i - 1]
            if j == 'exact':
                start = pen
            elif j == 'ulp':
                start = complex(math.nextafter(pen.real, math.inf), pen.imag)
            else:
                start = pen + (7 - 3j) * sc
        s = mkseg(POOL[idx], start, sc)
        segs.append(s)
        pen = s.end
    return segs


def reference(segs):
    ls = [AB.fresh_copy(s).length() for s in segs]      # fresh objects: nothing an earlier call left on the segments
    tot = sum(ls)
    fr = [l / tot if tot else l for l in ls]
    b = [0.0]
    for f in fr:
        b.append(b[-1] + f)
    return ls, tot, fr, b


def t_alphabet(b):
    out = {0.0, 1.0, math.nextafter(0.0, 1.0), math.nextafter(1.0, 0.0), 0.5, 1 / 3.0, 0.999999}
    for k in range(1, len(b)):
        for v in (b[k], math.nextafter(b[k], 0.0), math.nextafter(b[k], 2.0), (b[k - 1] + b[k]) / 2):
            if 0.0 <= v <= 1.0:
                out.add(v)
    return sorted(out)


def check_path(segs, case, acc, Ts=None, pair_max_n=3, path_obj=None):
    p = AB.derive_path(Path(*segs)) if path_obj is None else path_obj
    segs = list(p)          # (equal by value to what was passed in; identity matters for continuous_subpaths below)
    n = len(segs)
    ls, tot, fr, b = reference(segs)
    size = max(abs(q) for s in segs for q in (s.start, s.end)) + tot
    sig0 = {'n': 'many' if n > 5 else n, 'has_zero_length': any(l == 0 for l in ls)}
    for T in (Ts if Ts is not None else t_alphabet(b)):
        c = lambda: dict(case, T=T)
        near_boundary = any(abs(T - x) <= 4 * EPS for x in b[1:-1])
        cls = 'T=0' if T == 0 else 'T=1' if T == 1 else ('boundary' if near_boundary else 'interior')
        acc.case(c, cls='%s/%s' % ('multi' if n > 1 else 'single', cls), nontrivial=n > 1)
        r = outcome(lambda: p.T2t(T))
        rp = outcome(lambda: p.point(T))
        if r[0] != 'ok' or rp[0] != 'ok':
            acc.violation('raises_for_T_in_range', dict(sig0, where=cls, fn='T2t' if r[0] != 'ok' else 'point',
                                                        exc=(r if r[0] != 'ok' else rp)[1]),
                          c(), observed=[r, rp], expected='no exception')
            continue
        k, t = r[1]
        if not (isinstance(k, (int,)) and 0 <= k < n):
            acc.violation('T2t_index_out_of_range', sig0, c(), observed=r[1])
            continue
        slack_T = 8 * EPS * (1 + n / 8.0)
        if not (b[k] - slack_T <= T <= b[k + 1] + slack_T):
            acc.violation('T2t_wrong_segment', dict(sig0, where=cls), c(), observed=[k, t],
                          expected='T in [%r, %r]' % (b[k], b[k + 1]), detail='boundaries %r' % b)
            continue
        tt = 8 * EPS * (1 + n / 8.0) / fr[k] if fr[k] > 0 else float('inf')
        if not (-tt <= t <= 1 + tt):
            acc.violation('T2t_t_out_of_range', dict(sig0, where=cls), c(), observed=[k, t], detail='tolerance %g' % tt)
            continue
        # point(T) == segment k at t
        if fr[k] > 0:
            tc = min(max(t, 0.0), 1.0)
            q = segs[k].point(tc)
            tol = 64 * EPS * (tot + size) * (1 + n / 8.0)
            if not abs(rp[1] - q) <= tol:
                acc.violation('point_differs_from_segment_point', dict(sig0, where=cls), c(), observed=rp[1], expected=q,
                              detail='k=%d t=%r tol=%g' % (k, t, tol))
            # t2T inverts
            r2 = outcome(lambda: p.t2T(k, t))
            if r2[0] != 'ok' or not abs(r2[1] - T) <= 16 * EPS * (1 + n / 8.0):
                acc.violation('t2T_does_not_invert', dict(sig0, where=cls), c(), observed=r2, expected=T)
            r3 = outcome(lambda: p.t2T(segs[k], t))
            if r3[0] == 'ok' and r2[0] == 'ok':
                # lookup by segment object: the first equal segment wins; only compare when unambiguous
                if sum(1 for s in segs if s == segs[k]) == 1 and not abs(r3[1] - r2[1]) <= 16 * EPS:
                    acc.violation('t2T_by_segment_differs', sig0, c(), observed=r3, expected=r2)
    # query order: the answer for T must not depend on which T was asked before (every ordered pair
    # of the alphabet on the SAME path object, against the answers of the ascending sweep above,
    # each of which was validated against the reference fractions)
    if Ts is None and n <= pair_max_n:
        alpha = t_alphabet(b)
        first = {}
        for T in alpha:
            first[T] = (outcome(lambda: p.T2t(T)), outcome(lambda: p.point(T)))
        for Ta in alpha:
            for Tb in alpha:
                acc.evaluations += 1
                p.point(Ta)
                got = (outcome(lambda: p.T2t(Tb)), outcome(lambda: p.point(Tb)))
                if got != first[Tb] and not (got[1][1] != got[1][1]):
                    acc.violation('answer_depends_on_previous_query', dict(sig0, fn='point' if got[1] != first[Tb][1] else 'T2t'),
                                  dict(case, T=Tb, previous_T=Ta), observed=got, expected=first[Tb])
                    break
            else:
                continue
            break
    # ends: point(0)/point(1) are the first segment's start point / last segment's end point
    # (exactly what those segments return; an Arc reproduces its end points only to ~1e-8, see C04)
    pe = outcome(lambda: (p.point(0), p.point(1), p.start, p.end))
    mag = size

    def endtol(s):
        return 1e-6 * mag if isinstance(s, Arc) else 8 * EPS * mag
    if pe[0] != 'ok' or not (pe[1][0] == segs[0].point(0) and abs(pe[1][0] - segs[0].start) <= endtol(segs[0]) and
                              pe[1][1] == segs[-1].point(1) and abs(pe[1][1] - segs[-1].end) <= endtol(segs[-1]) and
                              pe[1][2] == segs[0].start and pe[1][3] == segs[-1].end):
        acc.violation('endpoints', sig0, case, observed=pe, expected=[segs[0].start, segs[-1].end])
    # continuity structure
    joins = [segs[i].end == segs[i + 1].start for i in range(n - 1)]
    cont = all(joins)
    rc = outcome(lambda: p.iscontinuous())
    if rc != ('ok', cont):
        acc.violation('iscontinuous', sig0, case, observed=rc, expected=cont)
    if cont:
        rcl = outcome(lambda: p.isclosed())
        if rcl != ('ok', segs[0].start == segs[-1].end):
            acc.violation('isclosed', sig0, case, observed=rcl, expected=segs[0].start == segs[-1].end)
    rs = outcome(lambda: p.continuous_subpaths())
    if rs[0] != 'ok':
        acc.violation('continuous_subpaths_raises', sig0, case, observed=rs)
    else:
        subs = rs[1]
        exp_lens = []
        run = 1
        for j in joins:
            if j:
                run += 1
            else:
                exp_lens.append(run)
                run = 1
        exp_lens.append(run)
        ok = [len(s) for s in subs] == exp_lens and all(s.iscontinuous() for s in subs) and \
            all(subs[i][-1].end != subs[i + 1][0].start for i in range(len(subs) - 1)) and \
            concatpaths(subs) == p and all(a is b for a, b in zip([s for sp_ in subs for s in sp_], segs))
        if not ok:
            acc.violation('continuous_subpaths', dict(sig0, pattern=''.join('j' if j else 'b' for j in joins) if n <= 4 else 'long'),
                          case, observed=[len(s) for s in subs], expected=exp_lens)
    acc.seen('joints:' + ('none' if n == 1 else ('all' if cont else ('some' if any(joins) else 'no'))))


def repeated_paths():
    """paths in which a segment occurs more than once BY VALUE (a stroke drawn forth, back and forth again; the same
    stroke twice in a row, i.e. with a jump back; one segment OBJECT at two positions): anything that finds a
    segment's position by searching for an equal one lands on the first occurrence"""
    for idx in range(len(POOL) - 1):
        for regime in (None, 'tiny'):
            a = build((idx,), (), regime)[0]
            b = a.reversed()
            yield 'forth_back_forth', idx, regime, [a, b, AB.fresh_copy(a)]
            yield 'twice_with_jump', idx, regime, [a, AB.fresh_copy(a)]
            yield 'same_object_twice', idx, regime, [a, b, a]
            other = build((0, idx), ('exact',), regime)
            yield 'lead_in_then_twice', idx, regime, [other[0], other[1], other[1].reversed(), AB.fresh_copy(other[1])]


def check_repeated(acc, only=None):
    for kind, idx, regime, segs in repeated_paths():
        case = {'what': 'repeated', 'kind': kind, 'idx': idx, 'regime': regime}
        if only is not None and only != case:
            continue
        acc.seen('repeated_segments')
        check_path(segs, case, acc, pair_max_n=0)


def check_after_arc_approximation(word, how, acc):
    """a path with arcs answers T2t / point / length, has its arcs replaced IN PLACE by Bezier curves
    (Path.approximate_arcs_with_cubics / _quads), and must then be coherent for its NEW segments"""
    segs = build(word, ['exact'] * (len(word) - 1))
    p = Path(*segs)
    ls, tot, fr, b = reference(segs)
    for T in t_alphabet(b):
        outcome(lambda: (p.T2t(T), p.point(T)))
    outcome(lambda: p.length())
    r = outcome(lambda: getattr(p, how)())
    case = {'what': 'arc_approximation', 'word': list(word), 'how': how}
    if r[0] != 'ok':
        acc.violation('raises_for_T_in_range', {'fn': how, 'exc': r[1]}, case, observed=r)
        return
    acc.seen('after_arc_approximation')
    check_path(list(p), case, acc, pair_max_n=0, path_obj=p)


def tier_params(tier, seed):
    if tier == 'quick':
        return {'n': 4, 'equal_ks': [2, 3, 5, 6, 7, 10, 13, 49]}
    return {'n': 5, 'equal_ks': list(range(2, 65)) + [100, 128, 255]}


def words(n):
    for L in range(1, n + 1):
        for w in itertools.product(range(len(POOL)), repeat=L):
            if w[0] == len(POOL) - 1:
                continue      # zero-length line only in non-leading positions
            yield w


def shards(tier, seed):
    tp = tier_params(tier, seed)
    out = [{'what': 'words', 'first': i, 'second': j} for i in range(len(POOL) - 1) for j in range(-1, len(POOL))]
    out += [{'what': 'words', 'first': i, 'second': j, 'regime': r} for i in range(len(POOL) - 1) for j in range(-1, len(POOL)) for r in REGIMES]
    out.append({'what': 'equal'})
    out.append({'what': 'repeated'})
    out.append({'what': 'arc_approximation'})
    out += AB.provenance_shards(out, tier, lambda d: d['what'] == 'words', key='pprov')
    return out


def run_shard(desc, tier, seed):
    acc = core.Acc()
    tp = tier_params(tier, seed)
    if desc['what'] == 'arc_approximation':
        ai = [i for i, e in enumerate(POOL) if e[1] == 'A'][0]
        for w in words(3):
            if ai in w:
                for how in ('approximate_arcs_with_cubics', 'approximate_arcs_with_quads'):
                    check_after_arc_approximation(w, how, acc)
        return acc
    if desc['what'] == 'equal':
        for k in tp['equal_ks']:
            for d in (1 + 0j, 0.1 + 0.2j, 3 - 7j, 1e-3 + 0j):
                for joint in ('exact',):
                    segs = []
                    pen = 0j
                    for i in range(k):
                        segs.append(Line(pen, pen + d))
                        pen = segs[-1].end
                    check_path(segs, {'what': 'equal', 'k': k, 'd': core.jz(d)}, acc)
        return acc
    # (words of the full length on plain paths; one segment shorter on paths with a history: 14 histories x 8^5 words
    #  would cost an hour for no new joint patterns)
    if desc['what'] == 'repeated':
        check_repeated(acc)
        return acc
    regime = desc.get('regime')
    for w in words((tp['n'] if not desc.get('pprov') else min(tp['n'], 4)) if not regime else 3):
        if w[0] != desc['first']:
            continue
        if (w[1] if len(w) > 1 else -1) != desc['second']:
            continue
        for joints in itertools.product(JOINTS, repeat=len(w) - 1):
            segs = build(w, joints, regime)
            case = {'what': 'word', 'word': list(w), 'joints': list(joints)}
            if regime:
                case['regime'] = regime
                acc.seen('regime:' + regime)
            check_path(segs, case, acc, pair_max_n=3 if not regime else 0)
    return acc


def expected_classes(tier):
    return ['multi/boundary', 'multi/interior', 'multi/T=0', 'multi/T=1', 'single/interior',
            'joints:all', 'joints:some', 'joints:no', 'joints:none', 'after_arc_approximation']


def space(tier, seed):
    tp = tier_params(tier, seed)
    return {'pool': [p[0] for p in POOL], 'max_words_length': tp['n'], 'joint_relations': JOINTS,
            'equal_line_families_k': tp['equal_ks'],
            'query_order': 'every ordered pair (previous T, T) of the alphabet on the same Path object, paths of <= 3 segments',
            'T_alphabet': '0, 1, nextafter(0,1), nextafter(1,0), 0.5, 1/3, 0.999999, every cumulative boundary b_k, its two float neighbours, every interval midpoint'}


def replay(case):
    acc = core.ReplayAcc()
    c = dict(case)
    T = c.pop('T', None)
    if c['what'] == 'arc_approximation':
        check_after_arc_approximation(tuple(c['word']), c['how'], acc)
        if T is not None:
            acc.vlist = [v for v in acc.vlist if v['case'].get('T') == T]
        return acc.vlist
    if c['what'] == 'repeated':
        check_repeated(acc, only={k: v for k, v in c.items() if k in ('what', 'kind', 'idx', 'regime')})
        if T is not None:
            acc.vlist = [v for v in acc.vlist if v['case'].get('T') == T]
        return acc.vlist
    if c['what'] == 'equal':
        d = complex(*c['d'])
        segs = []
        pen = 0j
        for i in range(c['k']):
            segs.append(Line(pen, pen + d))
            pen = segs[-1].end
    else:
        segs = build(tuple(c['word']), tuple(c['joints']), c.get('regime'))
    prev = c.pop('previous_T', None)
    if prev is not None:
        check_path(segs, c, acc, Ts=None)
        acc.vlist = [v for v in acc.vlist if v['clause'] == 'answer_depends_on_previous_query']
        return acc.vlist
    check_path(segs, c, acc, Ts=None if T is None else [T])
    return acc.vlist
