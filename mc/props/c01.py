"""C01  Path.d() output parses back to the same path, under every option.

Product mode.  A path is a word over *segment templates* interpreted relative
to the pen (kind x how it starts x control relation x where it ends x arc
parameters); all words up to the stated length are enumerated, over several
coordinate embeddings, and each is serialised with all 8 option combinations,
re-parsed and compared.  The emitted d-string is also read by the independent
recogniser/interpreter of mc/refsvg.py.
"""
import itertools
import math

from mc import core, refsvg
from mc.enc import seg2j, j2seg, path2j, outcome
from mc.props.c02 import seg_matches

from svgpathtools import parse_path, Line, QuadraticBezier, CubicBezier, Arc, Path

ID = 'C01'
LEVEL = 'model_checking'
RULE = ('all words over segment templates up to length N x coordinate embeddings x 8 serialiser option '
        'combinations; each case = (word, embedding, options) is serialised by the real Path.d and re-parsed '
        'by the real parser; non-trivial = the path has >= 2 segments or emits a Z/S/T/mid-path M; distinct = '
        'distinct (d-string, options)')
ASSUMPTIONS = [
    'paths longer than the bound and coordinates outside the embeddings are not covered',
    'mc/refsvg.py as independent reader of the emitted string',
]

EPS = 2.0 ** -52

FRESH = [(0, 0), (4, 1), (7, 5), (2, 8), (-3, 6), (-5, -2), (1, -6), (9, -4), (12, 3), (6, 11),
         (-8, 9), (-10, 1), (-7, -7), (3, -11), (13, -9), (15, 6), (10, 14), (-2, 13), (-12, 12),
         (-14, -3), (-11, -10), (5, -14), (16, -13), (18, 2), (17, 10), (8, 17), (-6, 16), (-15, 7),
         (-16, -6), (-9, -15), (2, -17), (11, -16), (19, -7), (20, 9), (14, 18), (0, 19), (-13, 17),
         (-18, 4), (-17, -12), (-4, -19)]

EMBEDDINGS = {
    'E0': lambda i, j: complex(0.5 * i, 0.5 * j),
    'E1': lambda i, j: complex(0.1 * i + 0.7, 0.1 * j - 0.3),
    'E2': lambda i, j: complex(0.5 * i * 2.0 ** -24, 0.5 * j * 2.0 ** -24),
    'E3': lambda i, j: complex((0.1 * i + 0.7) * 1e6, (0.1 * j - 0.3) * 1e6),
    'E3b': lambda i, j: complex(0.5 * i * 1e20, 0.5 * j * 1e20),
    'E4': lambda i, j: complex((0.1 * i + 0.7) * 1e-3, (0.5 * j) * 1e3),
}
EMB_SCALE = {'E0': 1.0, 'E1': 1.0, 'E2': 2.0 ** -24, 'E3': 1e6, 'E3b': 1e20, 'E4': 1.0}

# (rx, ry, rotation, large_arc, sweep) relative to the embedding scale
ARCS = [
    (30.0, 20.0, 0, 0, 1),
    (0.1, 0.05, 30.0, 1, 0),        # far too small: auto-enlarged
    (50.0, 50.0, 0.0, 1, 1),
    (500.0, 5.0, -45.0, 0, 0),
    (20.0, 30.0, 400.5, 0, 1),
    (25.0, 25.0, 90, 1, 0),
]

OPTIONS = [dict(useSandT=a, use_closed_attrib=b, rel=c)
           for a in (False, True) for b in (False, True) for c in (False, True)]


def templates(level):
    """level 'full' or 'reduced'"""
    if level == 'full':
        starts, ends, ctrls, arcs = ['cont', 'new', 'back', 'ulp'], ['fresh', 'sub', 'first', 'interior'], \
            ['generic', 'reflect', 'reflect2', 'at_start', 'reflect_other'], range(len(ARCS))
    else:
        starts, ends, ctrls, arcs = ['cont', 'new'], ['fresh', 'sub'], ['generic', 'reflect', 'at_start', 'reflect_other'], [0]
    out = []
    for st in starts:
        for en in ends:
            out.append(('L', st, None, en, None))
            for c in ctrls:
                out.append(('Q', st, c, en, None))
                out.append(('C', st, c, en, None))
            for a in arcs:
                out.append(('A', st, None, en, a))
    return out


def build(word, emb, skip=0):
    """-> (list of segments, list of requested arc radii per segment or None) or (None, reason)"""
    E = EMBEDDINGS[emb]
    sc = EMB_SCALE[emb]
    fresh = iter(FRESH[skip:] + FRESH[:skip])
    nf = lambda: E(*next(fresh))
    segs = []
    req = []
    pen = None
    first = None
    sub_start = None
    visited = []
    prev = None
    for (kind, st, ctrl, en, ap) in word:
        newsub = False
        if st == 'cont':
            if pen is None:
                return None, 'cont_without_pen'
            start = pen
        elif st == 'new':
            start = nf()
            newsub = True
        elif st == 'back':
            if first is None or first == pen:
                return None, 'back_is_cont'
            start = first
            newsub = True
        elif st == 'ulp':
            # a new subpath that starts one ulp (in x) away from the pen
            if pen is None:
                return None, 'ulp_without_pen'
            start = complex(math.nextafter(pen.real, math.inf), pen.imag)
            newsub = True
        if pen is None and st != 'new':
            return None, 'first_must_be_new'
        if newsub:
            sub_start = start
        if first is None:
            first = start
        if en == 'fresh':
            end = nf()
        elif en == 'sub':
            end = sub_start
        elif en == 'first':
            if first == sub_start:
                return None, 'first_is_sub'
            end = first
        elif en in ('interior', 'interior_last'):
            cands = [v for v in visited if v != sub_start and v != first and v != start]
            if not cands:
                return None, 'no_interior'
            end = cands[0] if en == 'interior' else cands[-1]
        if kind in 'LA' and end == start:
            return None, 'zero_length_line_or_arc'
        if kind == 'L':
            s = Line(start, end)
            req.append(None)
        elif kind == 'A':
            rx, ry, rot, la, sw = ARCS[ap]
            s = Arc(start, complex(rx * sc, ry * sc), rot, la, sw, end)
            req.append(complex(rx * sc, ry * sc))
        else:
            want = {'Q': QuadraticBezier, 'C': CubicBezier}[kind]
            if ctrl in ('reflect', 'reflect2'):
                if not (isinstance(prev, want) and st == 'cont'):
                    return None, 'reflect_without_previous_curve'
                pc = prev.control if kind == 'Q' else prev.control2
                c1 = (start + start - pc) if ctrl == 'reflect' else (start + (start - pc))
                if ctrl == 'reflect2' and c1 == (start + start - pc):
                    return None, 'reflect2_same_as_reflect'
            elif ctrl == 'reflect_other':
                # the mirror image of the last control point of a preceding curve of the OTHER Bezier kind (a cubic
                # after a quadratic or the reverse): SVG's S / T shorthand does not apply across kinds
                other = {'Q': CubicBezier, 'C': QuadraticBezier}[kind]
                if not (isinstance(prev, other) and st == 'cont'):
                    return None, 'reflect_other_without_previous_curve_of_other_kind'
                pc = prev.control if kind == 'C' else prev.control2
                c1 = start + start - pc
            elif ctrl == 'at_start':
                c1 = start
            else:
                c1 = nf()
            if kind == 'Q':
                s = QuadraticBezier(start, c1, end)
            else:
                s = CubicBezier(start, c1, nf(), end)
            req.append(None)
        segs.append(s)
        visited.append(start)
        visited.append(end)
        pen = end
        prev = s
    return segs, req


# ------------------------------------------------------------------ oracle

def pts_of(s):
    return (s.start, s.end) if isinstance(s, Arc) else tuple(s.bpoints())


def compare_abs(orig, req, back):
    if len(orig) != len(back):
        return 'segment_count', '%d -> %d' % (len(orig), len(back))
    for i, (a, b) in enumerate(zip(orig, back)):
        if type(a) is not type(b):
            return 'segment_kind', 'segment %d: %s -> %s' % (i, type(a).__name__, type(b).__name__)
        for p, q in zip(pts_of(a), pts_of(b)):
            if not (p == q):
                return 'point', 'segment %d: %r -> %r' % (i, p, q)
        if isinstance(a, Arc):
            if a.large_arc != b.large_arc or a.sweep != b.sweep:
                return 'arc_flags', 'segment %d' % i
            if not (a.rotation == b.rotation):
                return 'arc_rotation', 'segment %d: %r -> %r' % (i, a.rotation, b.rotation)
            if a.radius != b.radius:
                enlarged = a.radius != complex(abs(req[i].real), abs(req[i].imag))
                if not enlarged:
                    return 'arc_radius', 'segment %d: %r -> %r' % (i, a.radius, b.radius)
                if abs(a.radius.real - b.radius.real) > 1e-12 * a.radius.real or \
                        abs(a.radius.imag - b.radius.imag) > 1e-12 * a.radius.imag:
                    return 'arc_radius_enlarged', 'segment %d: %r -> %r' % (i, a.radius, b.radius)
    return None


def compare_rel(orig, req, back, tol, z_after_curve):
    n, m = len(orig), len(back)
    if m == n + 1 and z_after_curve and isinstance(back[-1], Line) and abs(back[-1].end - back[-1].start) <= tol:
        back = back[:-1]
        m -= 1
    if n != m:
        return 'segment_count', '%d -> %d' % (n, m)
    for i, (a, b) in enumerate(zip(orig, back)):
        if type(a) is not type(b):
            return 'segment_kind', 'segment %d: %s -> %s' % (i, type(a).__name__, type(b).__name__)
        for p, q in zip(pts_of(a), pts_of(b)):
            if not abs(p - q) <= tol:
                return 'point', 'segment %d: %r -> %r (tol %g)' % (i, p, q, tol)
        if isinstance(a, Arc):
            if a.large_arc != b.large_arc or a.sweep != b.sweep:
                return 'arc_flags', 'segment %d' % i
            if not (a.rotation == b.rotation):
                return 'arc_rotation', 'segment %d' % i
            if abs(a.radius.real - b.radius.real) > 1e-9 * a.radius.real or \
                    abs(a.radius.imag - b.radius.imag) > 1e-9 * a.radius.imag:
                return 'arc_radius', 'segment %d: %r -> %r' % (i, a.radius, b.radius)
    return None


def features(segs):
    cont = all(segs[i].end == segs[i + 1].start for i in range(len(segs) - 1))
    closed = cont and segs[-1].end == segs[0].start
    f = {'continuous': cont, 'closed': closed,
         'closing_kind': type(segs[-1]).__name__ if closed else None}
    through = closed and any(s.start == segs[0].start for s in segs[1:])
    f['passes_through_start'] = bool(through)
    return f


def check_path(segs, req, word, emb, acc, opts_list=OPTIONS, skip=0, path_obj=None):
    p = Path(*segs) if path_obj is None else path_obj
    f = features(segs)
    # abstract serialiser state graph: state = (previous kind, closed?), transition = (state, joint relation, kind)
    g = acc.extra.setdefault('graph', {})
    prev = 'none'
    for i, s in enumerate(segs):
        rel = 'first' if i == 0 else ('cont' if segs[i - 1].end == s.start else
                                      ('at_path_start' if s.start == segs[0].start else 'jump'))
        k = type(s).__name__[0]
        g['%s|%s>%s|%s' % (prev, f['closed'], rel, k)] = 1
        prev = k
    for opt in opts_list:
        r = outcome(lambda: p.d(**opt))
        okey = ''.join(k[0] for k, v in sorted(opt.items()) if v) or '-'
        case = {'word': word, 'emb': emb, 'opt': opt, 'skip': skip}
        if r[0] == 'exc':
            acc.case(case, cls='d_raises', nontrivial=True)
            acc.violation('d_raises', {'exc': r[1], 'opt': okey, **f}, case, observed=r[1])
            continue
        d = r[1]
        letters = ''.join(ch for ch in d if ch.isalpha() and ch not in 'eE')
        mid_m = 'M' in letters[1:].upper()
        nontrivial = len(segs) >= 2 or any(ch in letters.upper() for ch in 'ZST') or mid_m
        acc.case(lambda: {'d': d, 'opt': opt}, cls='emits:' + ''.join(sorted(set(letters))) + ('/midM' if mid_m else ''),
                 nontrivial=nontrivial)
        acc.traces += 1
        sig_base = dict(f)
        sig_base.update({'opt': okey, 'kinds': ''.join(sorted(set(type(s).__name__[0] for s in segs)))})
        # (5) the string is grammatical and means the same to the reference reader
        try:
            prog = refsvg.parse(d)
            ref = refsvg.interpret(prog)
        except refsvg.Ungrammatical as e:
            acc.violation('d_ungrammatical', sig_base, case, observed=d, detail=str(e))
            continue
        pr = outcome(lambda: parse_path(d))
        if pr[0] == 'exc':
            acc.violation('reparse_raises', {'exc': pr[1], **sig_base}, case, observed=d)
            continue
        back = list(pr[1])
        if len(ref) != len(back) or any(seg_matches(s, rs) for s, rs in zip(back, ref)):
            acc.violation('parser_and_reference_reader_disagree_on_emitted_string', sig_base, case, observed=d)
        up = ''.join(ch for ch in letters.upper())
        zi = up.rfind('Z')
        z_after_curve = zi > 0 and up[zi - 1] in 'CSQTA'
        if opt['rel']:
            # rounding of the emitted differences: parser adds differences to a drifting pen
            mag = 0.0
            for s in segs:
                for q in pts_of(s):
                    mag += abs(q) + abs(q - s.start)
            tol = 4 * EPS * mag
            c = compare_rel(segs, req, back, tol, z_after_curve)
        else:
            c = compare_abs(segs, req, back)
        if c is not None:
            sig = {'what': c[0], 'opt': okey, 'closed': f['closed'], 'continuous': f['continuous'],
                   'closing': None if not f['closed'] else ('Line' if f['closing_kind'] == 'Line' else 'curve'),
                   'passes_through_start': f['passes_through_start']}
            acc.violation('roundtrip_differs', sig, case, observed=c[1], expected='identity', detail='d=%r' % d)


# ------------------------------------------------------------------ enumeration

def tier_params(tier, seed):
    if tier == 'quick':
        embs = list(EMBEDDINGS)
        return {'full_len': 2, 'reduced_len': 3, 'embs': embs, 'family_len': 5}
    return {'full_len': 3, 'reduced_len': 4, 'embs': list(EMBEDDINGS), 'family_len': 6}


def through_start_family(maxlen):
    """closed curve paths that pass through their own start point: words of
    curve templates with 'cont' starts whose interior ends return to the first point"""
    out = []
    kinds = [('C', 'generic'), ('C', 'reflect'), ('Q', 'generic'), ('Q', 'reflect'), ('C', 'at_start'), ('L', None)]
    for n in range(3, maxlen + 1):
        for ks in itertools.product(kinds, repeat=n):
            # ends: one interior return to start at position r (1..n-2), final returns to start
            for r in range(1, n - 1):
                word = []
                for i, (k, c) in enumerate(ks):
                    st = 'new' if i == 0 else 'cont'
                    en = 'sub' if (i == r or i == n - 1) else 'fresh'
                    word.append((k, st, c, en, None))
                out.append(tuple(word))
    return out


def revisit_family(maxlen):
    """closed paths that come back to a vertex they already visited (the first interior one, or the one
    before the last) and close from THERE: the start of the closing segment is a point the path has been
    at before, so 'are we back at ...' tests in the serialiser can fire one segment early"""
    out = []
    kinds = [('L', None), ('C', 'generic'), ('Q', 'generic')]
    for n in range(4, maxlen + 1):
        for ks in itertools.product(kinds, repeat=n - 1):
            for back in ('interior', 'interior_last'):
                for closing in kinds:
                    word = []
                    for i, (k, c) in enumerate(ks):
                        st = 'new' if i == 0 else 'cont'
                        en = back if i == n - 2 else 'fresh'
                        word.append((k, st, c, en, None))
                    word.append((closing[0], 'cont', closing[1], 'sub', None))
                    out.append(tuple(word))
    return out


EDITS = ['pop', 'append_tail', 'replace_last', 'insert_lead_in', 'pop_then_append', 'end_moved']


def run_edited_parsed(emb, acc):
    """a closed path as the PARSER returns it (from a string ending in Z: it carries the parser's closed flag),
    then opened or extended in place through the Path interface; serialising the result must still round
    trip - a stored 'closed' flag is not a fact about the current segments"""
    E = EMBEDDINGS[emb]
    kinds = [('L', None), ('C', 'generic'), ('Q', 'generic')]
    for n in (2, 3):
        for ks in itertools.product(kinds, repeat=n):
            for closing in kinds:
                word = [(k, 'new' if i == 0 else 'cont', c, 'fresh', None) for i, (k, c) in enumerate(ks)]
                word.append((closing[0], 'cont', closing[1], 'sub', None))
                segs, req = build(tuple(word), emb)
                if segs is None:
                    continue
                for use_z in (True, False):
                    for edit in EDITS:
                        try:
                            p = parse_path(Path(*segs).d(use_closed_attrib=use_z))
                        except Exception:
                            continue
                        far = E(-19, 18)
                        far2 = E(19, -18)
                        if edit == 'pop':
                            p.pop()
                        elif edit == 'append_tail':
                            p.append(Line(p[-1].end, far))
                        elif edit == 'replace_last':
                            p[-1] = Line(p[-1].start, far)
                        elif edit == 'insert_lead_in':
                            p.insert(0, Line(far2, p[0].start))
                        elif edit == 'pop_then_append':
                            p.pop()
                            p.append(Line(p[-1].end, far))
                        elif edit == 'end_moved':
                            p.end = far
                        w2 = [list(t) for t in word] + [['edit', edit, 'parsed_with_Z' if use_z else 'parsed_without_Z']]
                        check_path(list(p), [None] * len(p), w2, emb, acc, OPTIONS, 0, path_obj=p)
                        acc.seen('edited_parsed_path')


def shards(tier, seed):
    tp = tier_params(tier, seed)
    out = []
    full = templates('full')
    red = templates('reduced')
    for emb in tp['embs']:
        for i in range(len(full)):
            if full[i][1] == 'new':
                out.append({'emb': emb, 'set': 'full', 'first': i})
        for i in range(len(red)):
            if red[i][1] == 'new':
                out.append({'emb': emb, 'set': 'reduced', 'first': i})
        for k in range(8):
            out.append({'emb': emb, 'set': 'family', 'first': k})
        out.append({'emb': emb, 'set': 'reflect2', 'first': 0})
        if emb in ('E0', 'E1', 'E3'):
            out += [{'emb': emb, 'set': 'revisit', 'first': k} for k in range(4)]
            out.append({'emb': emb, 'set': 'edited_parsed', 'first': 0})
    return out


def run_shard(desc, tier, seed):
    acc = core.Acc()
    tp = tier_params(tier, seed)
    emb = desc['emb']
    if desc['set'] == 'reflect2':
        # smooth joints whose control point was built as start + (start - c) rather than
        # 2*start - c, over many coordinate choices (rounding-sensitive S/T decision)
        for skip in range(len(FRESH)):
            for k in 'CQ':
                for n in (2, 3):
                    word = [(k, 'new', 'generic', 'fresh', None)] + [(k, 'cont', 'reflect2', 'fresh', None)] * (n - 1)
                    run_word(tuple(word), emb, acc, skip=skip)
        return acc
    if desc['set'] == 'edited_parsed':
        run_edited_parsed(emb, acc)
        return acc
    if desc['set'] == 'revisit':
        for idx, word in enumerate(revisit_family(5 if tier == 'quick' else 6)):
            if idx % 4 == desc['first']:
                run_word(word, emb, acc)
                acc.seen('revisit_family')
        return acc
    if desc['set'] == 'family':
        fam = through_start_family(tp['family_len'] if desc['emb'] in ('E0', 'E1') else 4)
        for idx, word in enumerate(fam):
            if idx % 8 != desc['first']:
                continue
            run_word(word, emb, acc)
        return acc
    T = templates(desc['set'])
    maxlen = tp['full_len'] if desc['set'] == 'full' else tp['reduced_len']
    minlen = 1 if desc['set'] == 'full' else tp['full_len'] + 1
    first = T[desc['first']]
    for n in range(1, maxlen + 1):
        if n < minlen:
            continue
        for rest in itertools.product(T, repeat=n - 1):
            run_word((first,) + rest, emb, acc)
    return acc


def run_word(word, emb, acc, opts_list=OPTIONS, skip=0):
    segs, req = build(word, emb, skip)
    if segs is None:
        acc.filt(req)
        return
    check_path(segs, req, [list(t) for t in word], emb, acc, opts_list, skip)


def expected_classes(tier):
    return ['all_letters_both_cases_and_midpath_M_emitted', 'revisit_family', 'edited_parsed_path']


def finalize(acc):
    g = acc.extra.pop('graph', {})
    acc.states = len(set(k.split('>')[0] for k in g))
    acc.transitions = len(g)
    acc.extra['abstract_transitions'] = sorted(g)
    need = set('MLCSQTAZ') | set('mlcsqtaz')
    seen = set()
    midm = False
    for k in acc.classes:
        if str(k).startswith('emits:'):
            body = str(k)[6:]
            if body.endswith('/midM'):
                midm = True
                body = body[:-5]
            seen |= set(body)
    missing = sorted(need - seen)
    if not missing and midm:
        acc.classes['all_letters_both_cases_and_midpath_M_emitted'] = 1
    acc.extra['emitted_letters_seen'] = ''.join(sorted(seen))


def space(tier, seed):
    tp = tier_params(tier, seed)
    return {'templates_full': len(templates('full')), 'templates_reduced': len(templates('reduced')),
            'full_words_up_to': tp['full_len'], 'reduced_words_up_to': tp['reduced_len'],
            'through_start_family_up_to': tp['family_len'], 'revisit_family_up_to': 5 if tier == 'quick' else 6, 'embeddings': tp['embs'],
            'options': 8, 'arc_pool': ARCS}


def replay(case):
    acc = core.ReplayAcc()
    if case['word'] and case['word'][-1][0] == 'edit':
        run_edited_parsed(case['emb'], acc)
        acc.vlist = [v for v in acc.vlist if v['case']['word'] == case['word'] and v['case']['opt'] == case['opt']]
        return acc.vlist
    word = tuple(tuple(t) for t in case['word'])
    run_word(word, case['emb'], acc, [case['opt']], case.get('skip', 0))
    return acc.vlist
