"""C03  Line/Quadratic/Cubic point, poly, points and derivative are the Bernstein curve.

Exact part: each identity is decided FOR ALL inputs by a degree certificate
(the real method executed on degree-tracking elements) followed by exhaustive
exact evaluation on a full product grid of Gaussian rationals (grid lemma,
mc/gridproof.py).  Float part: shape library x scales x t alphabet against
exact rational evaluation of the same float inputs.
"""
import itertools
import math
from fractions import Fraction

from mc import core, gridproof
from mc.exact import GQ, F, bernstein_eval
from mc import alphabets as AB
from mc.enc import outcome

import numpy as np
from svgpathtools import Line, QuadraticBezier, CubicBezier
from svgpathtools.path import poly2bez, bez2poly, bpoints2bezier
from svgpathtools.bezier import bezier2polynomial, polynomial2bezier

ID = 'C03'
LEVEL = 'model_checking'
RULE = ('identities: one case per grid point of the full product grid sized by the machine-derived degree '
        'certificate (exact Gaussian-rational arithmetic through the real methods); float part: one case per '
        '(shape, scale, t, representation); every case is non-trivial except grid points where all control '
        'points coincide; distinct = distinct (identity, assignment)')
ASSUMPTIONS = [
    'grid lemma: a polynomial of degree <= d_i in x_i vanishing on a product grid with d_i+1 values per variable is zero',
    'the degree certificate is sound when the method completes on degree-tracking elements (any value-dependent branch raises)',
    'float claim: checked on the stated grid only, bound 64*eps*max|P|*max(1,|t|)^n',
]

CLASSES = {'L': (Line, 1), 'Q': (QuadraticBezier, 2), 'C': (CubicBezier, 3)}
EPS = 2.0 ** -52


def pvars(n):
    return ['p%d' % i for i in range(n + 1)]


def ref_point(pts, t):
    return bernstein_eval(pts, t)


def ref_derivative(pts, t, k):
    """k-th derivative of the Bezier curve: n!/(n-k)! * Bezier of k-th forward differences"""
    n = len(pts) - 1
    if k > n:
        return 0 * pts[0]
    d = list(pts)
    for _ in range(k):
        d = [d[i + 1] - d[i] for i in range(len(d) - 1)]
    f = 1
    for i in range(k):
        f *= (n - i)
    return f * bernstein_eval(d, t)


def ref_power_coeffs(pts):
    """power-basis coefficients, highest first"""
    n = len(pts) - 1
    out = []
    for j in range(n + 1):
        s = 0 * pts[0]
        for i in range(j + 1):
            s = s + ((-1) ** (i + j) * math.comb(j, i)) * pts[i]
        out.append(math.comb(n, j) * s)
    return out[::-1]


def horner(coeffs_high_first, t):
    r = 0 * coeffs_high_first[0]
    for c in coeffs_high_first:
        r = r * t + c
    return r


def identities(kind):
    cls, n = CLASSES[kind]
    pv = pvars(n)
    mk = lambda kw: cls(*[kw[v] for v in pv])
    pts = lambda kw: [kw[v] for v in pv]
    ids = []
    ids.append(('point', pv + ['t'], lambda **kw: mk(kw).point(kw['t']), lambda **kw: ref_point(pts(kw), kw['t'])))
    ids.append(('poly_coeffs', pv, lambda **kw: list(mk(kw).poly(return_coeffs=True)), lambda **kw: ref_power_coeffs(pts(kw))))
    ids.append(('poly1d_call', pv + ['t'], lambda **kw: mk(kw).poly()(kw['t']), lambda **kw: ref_point(pts(kw), kw['t'])))
    ids.append(('points', pv + ['t'], lambda **kw: mk(kw).points([kw['t'], kw['t']])[1], lambda **kw: ref_point(pts(kw), kw['t'])))
    ids.append(('poly2bez_of_poly', pv, lambda **kw: list(poly2bez(list(mk(kw).poly(return_coeffs=True)), return_bpoints=True)),
                lambda **kw: pts(kw)))
    ids.append(('poly2bez_segment', pv, lambda **kw: list(poly2bez(list(mk(kw).poly(return_coeffs=True))).bpoints()),
                lambda **kw: pts(kw)))
    ids.append(('bpoints2bezier', pv + ['t'], lambda **kw: bpoints2bezier(pts(kw)).point(kw['t']),
                lambda **kw: ref_point(pts(kw), kw['t'])))
    ids.append(('bez2poly_numpy_order', pv, lambda **kw: list(bez2poly(mk(kw))), lambda **kw: ref_power_coeffs(pts(kw))))
    ids.append(('bez2poly_standard_order', pv, lambda **kw: list(bez2poly(mk(kw), numpy_ordering=False)),
                lambda **kw: ref_power_coeffs(pts(kw))[::-1]))
    ids.append(('bez2poly_poly1d', pv + ['t'], lambda **kw: bez2poly(mk(kw), return_poly1d=True)(kw['t']),
                lambda **kw: ref_point(pts(kw), kw['t'])))
    # the same options by position, on control-point tuples as well as on segment objects
    ids.append(('bez2poly_standard_order_positional', pv, lambda **kw: list(bez2poly(mk(kw), False)),
                lambda **kw: ref_power_coeffs(pts(kw))[::-1]))
    ids.append(('bez2poly_standard_order_of_tuple', pv, lambda **kw: list(bez2poly(tuple(pts(kw)), numpy_ordering=False)),
                lambda **kw: ref_power_coeffs(pts(kw))[::-1]))
    ids.append(('bez2poly_poly1d_positional', pv + ['t'], lambda **kw: bez2poly(mk(kw), True, True)(kw['t']),
                lambda **kw: ref_point(pts(kw), kw['t'])))
    ids.append(('bezier2polynomial_standard_order_positional', pv, lambda **kw: list(bezier2polynomial(pts(kw), False)),
                lambda **kw: ref_power_coeffs(pts(kw))[::-1]))
    ids.append(('poly2bez_bpoints_positional', pv, lambda **kw: list(poly2bez(list(mk(kw).poly(True)), True)),
                lambda **kw: pts(kw)))
    ids.append(('bpoints', pv, lambda **kw: list(mk(kw).bpoints()), lambda **kw: pts(kw)))
    # through a numpy.poly1d (which drops exactly-zero leading coefficients): the recovered control
    # points may be fewer, but must describe the same curve
    ids.append(('poly2bez_of_poly1d', pv + ['t'],
                lambda **kw: bernstein_eval(list(poly2bez(mk(kw).poly(), return_bpoints=True)), kw['t']),
                lambda **kw: ref_point(pts(kw), kw['t'])))
    for k in range(1, n + 3):
        ids.append(('derivative_%d' % k, pv + ['t'],
                    (lambda k: lambda **kw: mk(kw).derivative(kw['t'], k))(k),
                    (lambda k: lambda **kw: ref_derivative(pts(kw), kw['t'], k))(k)))
    return ids


def special_assignments(n):
    """control-point assignments on which a value-dependent shortcut would fire (the grid lemma
    only speaks about polynomial maps): coincident, equally spaced collinear (a degree-elevated
    line), degree-elevated quadratic, zeros"""
    G = lambda a, b=0: GQ(Fraction(a), Fraction(b))
    out = [[G(i, 2 * i) for i in range(n + 1)],                          # elevated line (leading coefficients exactly 0)
           [G(0)] * (n + 1),
           [G(3, -1)] * n + [G(5, 2)],
           [G(3, -1)] + [G(5, 2)] * n]
    if n == 3:
        out.append([G(0), G(2, 4), G(4, 4), G(6, 0)])                    # elevated quadratic
        out.append([G(1), G(1), G(4, 1), G(4, 1)])
    if n == 2:
        out.append([G(0), G(2, 1), G(4, 2)])
    return out


def run_special(kind, acc, only=None):
    cls, n = CLASSES[kind]
    for name, variables, impl, ref in identities(kind):
        if only and name != only:
            continue
        for ai, pts_ in enumerate(special_assignments(n)):
            for t in (Fraction(0), Fraction(1, 2), Fraction(1), Fraction(-1, 3)):
                if 't' not in variables and t != 0:
                    continue
                if kind == 'L' and name.startswith('derivative') and pts_[0] == pts_[1]:
                    continue        # documented precondition of Line.derivative
                if name == 'poly2bez_of_poly1d' and all(q == pts_[0] for q in pts_):
                    continue        # a constant polynomial has no Bezier segment of degree 1..3
                kw = dict(zip(pvars(n), pts_))
                if 't' in variables:
                    kw['t'] = t
                case = {'what': 'special', 'kind': kind, 'identity': name, 'assignment': ai, 't': str(t)}
                acc.case(case, cls='special/%s' % kind)
                try:
                    same = gridproof.eq_exact(impl(**kw), ref(**kw))
                    err = None
                except Exception as e:
                    same, err = False, '%s: %s' % (type(e).__name__, e)
                if not same:
                    acc.violation('identity_fails_on_degenerate_input', {'kind': kind, 'identity': name},
                                  case, observed=err or repr(gridproof.flatten(impl(**kw)))[:300],
                                  expected=repr(gridproof.flatten(ref(**kw)))[:300])


def exact_poly2bez(coeffs_high_first):
    """Bezier control points of a polynomial given by exact coefficients (highest power first)"""
    c = [Fraction(x) for x in coeffs_high_first][::-1]         # lowest first
    n = len(c) - 1
    # power basis -> Bernstein: b_i = sum_{j<=i} C(i,j)/C(n,j) * c_j
    return [sum(Fraction(math.comb(i, j), math.comb(n, j)) * c[j] for j in range(i + 1)) for i in range(n + 1)]


def run_native_coefficients(acc, only=None):
    """polynomial -> Bezier conversion for coefficients given as Python ints, int ndarrays, int poly1d,
    floats, Fractions: integer input must not be processed in integer arithmetic"""
    vals = (-2, 0, 1, 3)
    for n in (1, 2, 3):
        for cs in itertools.product(vals, repeat=n + 1):
            if cs[0] == 0:
                continue
            want = exact_poly2bez(cs)
            for form in ('int_list', 'int_tuple', 'int_ndarray', 'int_poly1d', 'float_list', 'complex_list'):
                case = {'what': 'native_coefficients', 'coeffs': list(cs), 'form': form}
                if only and case != only:
                    continue
                if form == 'int_list':
                    arg = [int(x) for x in cs]
                elif form == 'int_tuple':
                    arg = tuple(int(x) for x in cs)
                elif form == 'int_ndarray':
                    arg = np.array(cs, dtype=np.int64)
                elif form == 'int_poly1d':
                    arg = np.poly1d(np.array(cs, dtype=np.int64))
                elif form == 'float_list':
                    arg = [float(x) for x in cs]
                else:
                    arg = [complex(x) for x in cs]
                acc.case(case, cls='native_coefficients/%s' % form)
                for fn_name, fn in (('poly2bez', lambda: list(poly2bez(arg, return_bpoints=True))),
                                    ('polynomial2bezier', lambda: list(polynomial2bezier(arg)))):
                    r = outcome(fn)
                    ok = r[0] == 'ok' and len(r[1]) == len(want) and all(abs(complex(a) - complex(b)) <= 1e-12 for a, b in zip(r[1], want))
                    if not ok:
                        acc.violation('identity_fails_on_native_number_type', {'fn': fn_name, 'form': form}, case,
                                      observed=repr(r)[:200], expected=[str(x) for x in want])


def tier_params(tier, seed):
    if tier == 'quick':
        return {'choices': [0, 1 + seed % 3], 'scales': [1e-9, 1e-3, 1.0, 1e3, 1e6, 1e9]}
    return {'choices': [0, 1, 2, 3], 'scales': [1e-12, 1e-9, 1e-6, 1e-3, 1e-1, 1.0, 1e3, 1e6, 1e9, 1e12]}


def shards(tier, seed):
    tp = tier_params(tier, seed)
    out = []
    for kind in 'LQC':
        for ch in tp['choices']:
            out.append({'what': 'exact', 'kind': kind, 'choice': ch})
        if tier == 'thorough':
            out += [{'what': 'float', 'kind': kind, 'part': [i, 16]} for i in range(16)]
        else:
            out.append({'what': 'float', 'kind': kind})
        out.append({'what': 'special', 'kind': kind})
    out.append({'what': 'native_coefficients'})
    return out


def run_exact(kind, choice, acc, only=None):
    for name, variables, impl, ref in identities(kind):
        if only and name != only:
            continue
        r = gridproof.certify(impl, ref, variables, choice)
        acc.evaluations += r['grid_points']
        cls = 'exact/%s/%s/%s' % (kind, name, 'certified' if r['certificate'] else 'grid_only')
        acc.seen(cls, r['grid_points'])
        acc.samples.setdefault(cls, {'kind': kind, 'identity': name, 'choice': choice, 'degrees': r['degrees'],
                                     'grid_points': r['grid_points'], 'preconditions': r['preconditions']})
        for i in range(r['grid_points']):
            acc.nontrivial.add(core.h64('%s/%s/%d/%d' % (kind, name, choice, i)))
        key = '%s.%s' % (kind, name)
        good = bool(r['certificate'] and r['ok'])
        d = acc.extra.setdefault('certificate_runs_ok' if good else 'certificate_runs_failed', {})
        d[key] = d.get(key, 0) + 1
        if not r['ok']:
            acc.violation('identity_fails', {'kind': kind, 'identity': name},
                          {'what': 'exact', 'kind': kind, 'identity': name, 'choice': choice},
                          observed=r.get('observed', r['error']), expected=r.get('expected'),
                          detail='assignment %s' % r['mismatch'])


LATTICE = [0j, 1 + 0j, -7.5 + 0.1j, 0.1 + 1j / 3, 2.5e5 - 1.0e5j, -1j, 2 + 0j, 1 + 1j, 1e-9 + 0j]
ROT = complex(0.6, 0.8)        # a rotation with exactly representable entries


# parameters close to (not at) the ends: anything that "snaps" a nearby parameter to 0 or 1 shows here
NEAR_ENDS = [1e-9, 1e-6, 3e-5, 1.0 - 3e-5, 1.0 - 4e-6, 1.0 - 1e-6, 1.0 - 1e-9]


def float_cases(kind, scales, tier='quick'):
    lib = {'L': AB.LINES, 'Q': AB.QUADS, 'C': AB.CUBICS}[kind]
    for name, pts in lib.items():
        for sc in scales:
            yield name, sc, [complex(p) * sc for p in pts]
    # ordinary-size shapes a million units from the origin (both tiers)
    for name, pts in lib.items():
        yield 'far6:' + name, 1.0, [complex(p) + (1.0e6 + 1.0e6j) for p in pts]
    if tier == 'thorough':
        # every assignment of the control points over a small lattice of values (all coincidence
        # patterns: repeated points, closed curves, retraced legs, one far-away point) and the
        # library shapes rotated and moved far from the origin
        n = CLASSES[kind][1]
        for idx in itertools.product(range(len(LATTICE)), repeat=n + 1):
            yield 'lat:' + ','.join(map(str, idx)), 1.0, [LATTICE[i] for i in idx]
        for name, pts in lib.items():
            yield 'rot:' + name, 1.0, [complex(p) * ROT for p in pts]
            yield 'far:' + name, 1.0, [complex(p) + (3.0e5 + 2.0e5j) for p in pts]


def exact_pts(pts):
    return [GQ.of(p) for p in pts]


def run_float(kind, scales, acc, only=None, tier='quick', part=None):
    cls, n = CLASSES[kind]
    ts = AB.T_ALPHABET + AB.T_OUTSIDE + NEAR_ENDS
    for ci, (name, sc, pts) in enumerate(float_cases(kind, scales, tier)):
        if part is not None and ci % part[1] != part[0]:
            continue
        if only and (name, sc) != only:
            continue
        seg = cls(*pts)
        ex = exact_pts(pts)
        mag = max(abs(p) for p in pts)
        case = {'what': 'float', 'kind': kind, 'shape': name, 'scale': sc}
        # endpoints exactly
        acc.case(dict(case, q='endpoints'), cls='float/%s/endpoints' % kind)
        # exact as an identity (grid contains t=0,1); in floats t=0 must reproduce start bit for bit in
        # every evaluation scheme, t=1 only to within rounding (start + (end-start) is not exact)
        if not (seg.point(0) == pts[0] and seg.point(0.0) == pts[0] and
                abs(seg.point(1) - pts[-1]) <= 8 * EPS * mag and abs(seg.point(1.0) - pts[-1]) <= 8 * EPS * mag):
            acc.violation('endpoints_off', {'kind': kind}, case, observed=[seg.point(0), seg.point(1)],
                          expected=[pts[0], pts[-1]])
        pl = seg.poly()
        plc = seg.poly(return_coeffs=True)
        many = seg.points(ts)
        # the same ndarray object, refilled in place between two calls (a caller's scratch buffer), and
        # handed to another segment: points() must evaluate what the array holds NOW
        buf = np.array(ts, dtype=float)
        first = outcome(lambda: [complex(z) for z in seg.points(buf)])
        buf *= 0.5
        second = outcome(lambda: [complex(z) for z in seg.points(buf)])
        other = cls(*[p + (1 - 2j) * sc for p in pts])
        third = outcome(lambda: [complex(z) for z in other.points(buf)])
        acc.case(dict(case, q='points_buffer_reuse'), cls='float/%s/points_buffer_reuse' % kind)
        bnd = 64 * EPS * (mag + 3 * sc) * max(1.0, max(abs(t) for t in ts)) ** n + 1e-300
        okb = first[0] == second[0] == third[0] == 'ok' and \
            all(abs(z - complex(ref_point(ex, F(t)))) <= bnd for z, t in zip(first[1], ts)) and \
            all(abs(z - complex(ref_point(ex, F(t * 0.5)))) <= bnd for z, t in zip(second[1], ts)) and \
            all(abs(z - complex(ref_point(exact_pts([p + (1 - 2j) * sc for p in pts]), F(t * 0.5)))) <= bnd for z, t in zip(third[1], ts))
        if not okb:
            acc.violation('points_depends_on_earlier_call', {'kind': kind}, dict(case, q='points_buffer_reuse'),
                          observed=[first[0], second[0], third[0], repr(second[1])[:200]],
                          expected='values at the CURRENT contents of the array')
        # the parameter as an ndarray (every order of derivative, point): element-wise the scalar answers
        tarr = np.array(ts, dtype=float)
        acc.case(dict(case, q='ndarray_t'), cls='float/%s/ndarray_t' % kind)
        for k in range(0, n + 2):
            if kind == 'L' and pts[0] == pts[-1] and k > 0:
                continue
            rv = outcome(lambda: np.asarray(seg.point(tarr) if k == 0 else seg.derivative(tarr, k)) + np.zeros(len(ts)))
            want_v = [complex(ref_point(ex, F(t))) if k == 0 else complex(ref_derivative(ex, F(t), k)) for t in ts]
            bnd_v = 512 * EPS * mag * max(1.0, max(abs(t) for t in ts)) ** n + 1e-300
            if rv[0] != 'ok' or len(rv[1]) != len(ts) or not all(abs(complex(a) - b) <= bnd_v for a, b in zip(rv[1], want_v)):
                acc.violation('vector_parameter_differs_from_scalar', {'kind': kind, 'order': k}, dict(case, q='ndarray_t', order=k),
                              observed=repr(rv)[:300], expected=repr(want_v)[:200])
        for ti, t in enumerate(ts):
            tq = F(t)
            truth = complex(ref_point(ex, tq))
            bound = 64 * EPS * mag * max(1.0, abs(t)) ** n + 1e-300
            reps = {
                'point': outcome(lambda: seg.point(t)),
                'poly1d': outcome(lambda: pl(t)),
                'coeffs_horner': outcome(lambda: horner(list(plc), t)),
                'points': outcome(lambda: many[ti]),
                'poly2bez': outcome(lambda: poly2bez(pl).point(t)),
            }
            for rn, r in reps.items():
                if rn == 'poly2bez' and all(q == pts[0] for q in pts):
                    continue        # a constant polynomial has no Bezier segment of degree 1..3 (as in run_special)
                acc.case(lambda: dict(case, t=t, q=rn), cls='float/%s/%s' % (kind, rn))
                if r[0] != 'ok' or not abs(complex(r[1]) - truth) <= bound:
                    acc.violation('float_value_off', {'kind': kind, 'representation': rn, 'outside01': not 0 <= t <= 1},
                                  dict(case, t=t), observed=r, expected=truth, detail='bound %g' % bound)
            for k in range(1, n + 2):
                if kind == 'L' and pts[0] == pts[-1]:
                    continue
                truth = complex(ref_derivative(ex, tq, k))
                bound = 512 * EPS * mag * max(1.0, abs(t)) ** n + 1e-300
                r = outcome(lambda: seg.derivative(t, k))
                acc.case(lambda: dict(case, t=t, q='derivative%d' % k), cls='float/%s/derivative' % kind)
                if r[0] != 'ok' or not abs(complex(r[1]) - truth) <= bound:
                    acc.violation('float_derivative_off', {'kind': kind, 'order': k}, dict(case, t=t),
                                  observed=r, expected=truth, detail='bound %g' % bound)


def run_shard(desc, tier, seed):
    acc = core.Acc()
    if desc['what'] == 'exact':
        run_exact(desc['kind'], desc['choice'], acc)
    elif desc['what'] == 'special':
        run_special(desc['kind'], acc)
    elif desc['what'] == 'native_coefficients':
        run_native_coefficients(acc)
    else:
        run_float(desc['kind'], tier_params(tier, seed)['scales'], acc, tier=tier, part=desc.get('part'))
    return acc


def expected_classes(tier):
    out = ['native_coefficients/int_list', 'native_coefficients/int_poly1d']
    for kind in 'LQC':
        n = CLASSES[kind][1]
        for name in ['point', 'poly_coeffs', 'poly1d_call', 'points', 'poly2bez_of_poly', 'bez2poly_numpy_order'] + \
                ['derivative_%d' % k for k in range(1, n + 3)]:
            # without the degree certificate (value-dependent code) the identity is still decided on the grid, the
            # evidence then says so (all_inputs_certificate false) instead of claiming all inputs
            out.append('exact/%s/%s/certified|exact/%s/%s/grid_only' % (kind, name, kind, name))
        out += ['float/%s/point' % kind, 'float/%s/derivative' % kind, 'float/%s/points_buffer_reuse' % kind]
    return out


def finalize(acc):
    # graph-style counts for the model_checking evidence: states = grid points visited,
    # transitions = identity evaluations (impl + reference) on them
    acc.states = sum(v for k, v in acc.classes.items() if str(k).startswith('exact/'))
    acc.transitions = 2 * acc.states
    ok = acc.extra.get('certificate_runs_ok', {})
    bad = acc.extra.get('certificate_runs_failed', {})
    acc.extra['all_inputs_certificate'] = {k: (k not in bad) for k in sorted(set(ok) | set(bad))}
    if bad:
        import sys
        sys.stderr.write('NOTE property=%s: no degree certificate for %s - decided on the grid only, not for all inputs\n' % (ID, sorted(bad)))


def space(tier, seed):
    tp = tier_params(tier, seed)
    return {'identities_per_class': {k: [i[0] for i in identities(k)] for k in 'LQC'},
            'value_set_choices': tp['choices'], 'float_scales': tp['scales'],
            't_alphabet': AB.T_ALPHABET + AB.T_OUTSIDE,
            'float_lattice (thorough: every assignment of control points over it, plus rotated / far-away library shapes)':
                [str(z) for z in LATTICE] if tier == 'thorough' else None,
            'grid': 'full product grid, |S_i| = degree bound + 1 per variable (degree bounds in samples)'}


def replay(case):
    acc = core.ReplayAcc()
    if case['what'] == 'native_coefficients':
        run_native_coefficients(acc, only=case)
    elif case['what'] == 'exact':
        run_exact(case['kind'], case['choice'], acc, only=case['identity'])
    elif case['what'] == 'special':
        run_special(case['kind'], acc, only=case['identity'])
        acc.vlist = [v for v in acc.vlist if v['case'] == case]
    else:
        run_float(case['kind'], [case['scale']], acc, only=(case['shape'], case['scale']), tier='thorough')
    return acc.vlist
