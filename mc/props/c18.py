"""C18  Paths written to SVG (wsvg, Document) are read back unchanged, with attributes.

Graph mode: BFS over writer/reader histories.  A state is the reference model:
the ordered list of (path id, attribute dict id, group path) a document holds,
plus whether it is on disk.  Transitions call the real writer operations
(wsvg; Document(): add_group, add_path with a Path / a segment / a d-string,
save, reload) and every state is observed through every reader (the Document's
own paths(), svg2paths, Document(file).paths(), SaxDocument).  Oracle: same
number and order of paths, each equal to the original under the absolute-form
d-string guarantee of C01, supplied attributes among the returned ones.
"""
import itertools
import os
import shutil
import tempfile
import warnings

from mc import core
from mc.enc import outcome, path2j, j2path

from svgpathtools import (Path, Line, QuadraticBezier, CubicBezier, Arc, parse_path, wsvg, svg2paths, svg2paths2,
                          Document, SaxDocument)

ID = 'C18'
LEVEL = 'model_checking'
RULE = ('explicit-state BFS over writer histories (reference-model state = ordered list of (path, attributes, group) + '
        'saved flag), every state observed through all readers; wsvg: full product paths-list x attributes x svg_attributes '
        'x filename kind; a case = (history, reader); non-trivial = at least one path in the model; distinct = distinct '
        '(model state, reader)')
ASSUMPTIONS = ['path equality is the absolute-form round-trip equality of C01 (== ; auto-enlarged radii to 1e-12)',
               'files live in a private temporary directory removed at exit',
               'histories up to the stated depth over the stated alphabet']


def pool():
    return [
        Path(Line(0j, 3 + 4j), Line(3 + 4j, 5 - 1j)),
        Path(QuadraticBezier(1 + 1j, 2.5 + 3j, 4 + 0.5j)),
        Path(CubicBezier(0.1 + 0.2j, 1.3 + 0.7j, 0.9 + 2.1j, -0.4 + 1.7j), CubicBezier(-0.4 + 1.7j, -1.7 + 1.3j, 1e-07 + 2j, 3 + 3j)),
        Path(Arc(2 + 3j, 3 + 2j, 25, 1, 0, 6 + 5j)),
        parse_path('M 1 1 L 5 2 L 4 6 z M 10 10 C 11 12 13 12 14 10 L 20 10'),
        # a drawing a thousand million times smaller: two sub-paths, an arc among them
        Path(Line(0j, 3e-10 + 4e-10j), Arc(3e-10 + 4e-10j, 3e-10 + 2e-10j, 25, 1, 0, 6e-10 + 5e-10j), Line(7e-10 + 5e-10j, 9e-10 + 1e-10j)),
        # an ordinary-size drawing a million units from the origin: sub-paths separated by gaps of 2 and 0.001 units
        Path(Line(1e6 + 1e6j, 1e6 + 3 + 1e6j), Line(1e6 + 5 + 1e6j, 1e6 + 9 + (1e6 + 2) * 1j), QuadraticBezier(1e6 + 9.001 + (1e6 + 2) * 1j, 1e6 + 12 + 1e6j, 1e6 + 15 + (1e6 + 3) * 1j)),
    ]


ATTRS = [None, {'stroke': '#f00'}, {'stroke-width': '2', 'fill': 'none', 'id': 'p1'}, {'d': 'M 9 9 L 8 7', 'stroke': '#0f0'},
         {'xml:lang': 'en', 'xml:space': 'preserve', 'stroke': '#00f'},
         # values with characters that XML has to escape or write as character references to keep them
         {'id': 'a&b', 'data-q': 'say "<hi>" & \'bye\'', 'stroke': '#123'},
         # line break / tab inside a value (a multi-line style attribute, say): survives only as &#10; / &#9;
         {'data-note': 'first line\nsecond\tcolumn', 'stroke': '#456'}]
SVGATTRS = [None, {'viewBox': '0 0 100 100', 'width': '200px', 'height': '100px'}, {'height': '77mm'}, {'width': '30cm'}]


def same_path(a, b):
    if len(a) != len(b):
        return False
    for s, t in zip(a, b):
        if type(s) is not type(t):
            return False
        if isinstance(s, Arc):
            if not (s.start == t.start and s.end == t.end and s.rotation == t.rotation and s.large_arc == t.large_arc and
                    s.sweep == t.sweep and abs(s.radius.real - t.radius.real) <= 1e-12 * s.radius.real and
                    abs(s.radius.imag - t.radius.imag) <= 1e-12 * s.radius.imag):
                return False
        elif not s == t:
            return False
    return True


def attrs_contained(supplied, returned):
    if not supplied:
        return True
    for k, v in supplied.items():
        if k == 'd':
            continue        # the path given to the writer is the element's geometry, not a stale 'd' attribute
        got = returned.get(k)
        if got is None and ':' in k:
            # ElementTree-based readers report namespaced attribute names in Clark notation
            ns = {'xml': 'http://www.w3.org/XML/1998/namespace', 'xlink': 'http://www.w3.org/1999/xlink'}.get(k.split(':')[0])
            got = returned.get('{%s}%s' % (ns, k.split(':')[1]))
        if str(got) != str(v):
            return False
    return True


# ---------------------------------------------------------------- wsvg product

# further options of wsvg that shape the svg element (none of them touches a path): given alone and together with
# svg_attributes ("svg_attributes will override any other conflicting settings", disvg docstring)
EXTRAS = [None, {'viewbox': '0 0 200 100'}, {'viewbox': (1, 2, 30, 40)}, {'dimensions': ('300px', '200px')}, {'margin_size': 0.3, 'mindim': 100},
          {'viewbox': '5 5 50 50', 'dimensions': (640, 480)}, {'baseunit': 'mm'}, {'svgwrite_debug': True, 'timestamp': False},
          {'viewbox': '0 0 64 48', 'mindim': 50, 'margin_size': 0}]


def _nums(s_):
    import re
    return [float(x) for x in re.split(r'[ ,]+', str(s_).strip()) if x]


def check_wsvg(idxs, ai, si, fkind, tmp, acc, ei=0):
    P = pool()
    paths = [P[i] for i in idxs]
    attributes = None if ATTRS[ai] is None else [dict(ATTRS[ai], id='e%d' % k) if 'id' in ATTRS[ai] else dict(ATTRS[ai]) for k in range(len(paths))]
    svgat = SVGATTRS[si]
    sub = {'plain': 'out.svg', 'subdir': os.path.join('new dir', 'deeper', 'out.svg'), 'space': 'my file.svg'}[fkind]
    fn = os.path.join(tmp, 'w%s_%d_%d_%s_%d' % (''.join(map(str, idxs)), ai, si, fkind, ei), sub)
    os.makedirs(os.path.dirname(os.path.dirname(fn)), exist_ok=True)
    case = {'what': 'wsvg', 'paths': list(idxs), 'attributes': ai, 'svg_attributes': si, 'filename': fkind}
    kw = {}
    if attributes is not None:
        kw['attributes'] = attributes
    if svgat is not None:
        kw['svg_attributes'] = dict(svgat)
    # the per-path style lists given together with `attributes` ("attributes ... will override any other
    # conflicting settings"): on every second case
    styled = (sum(idxs) + ai + si) % 2 == 1
    if styled:
        kw['colors'] = ['#abcdef'] * len(paths)
        kw['stroke_widths'] = [3] * len(paths)
    case_extra = {'style_lists': True} if styled else {}
    if ei:
        kw.update(EXTRAS[ei])
        case['extras'] = ei
    with warnings.catch_warnings():
        warnings.simplefilter('ignore')
        r = outcome(lambda: wsvg(paths, filename=fn, **kw))
    sig = {'writer': 'wsvg', 'attributes': ai != 0, 'svg_attributes': si != 0}
    if styled:
        sig['style_lists_too'] = True
    if ei:
        sig['extras'] = sorted(EXTRAS[ei])
    acc.case(case, cls=('wsvg/attrs%d/svg%d/%s' % (ai, si, fkind)) if not ei else 'wsvg_extras/%d/svg%d' % (ei, si), nontrivial=True)
    acc.traces += 1
    if r[0] != 'ok' or not os.path.exists(fn):
        acc.violation('writer_raises', dict(sig, exc=r[1] if r[0] != 'ok' else 'no file'), case, observed=r)
        return
    read_back(fn, paths, attributes, svgat, case, sig, acc)
    if ei:
        # the svg-level values asked for through the dedicated parameters, where svg_attributes does not speak
        with warnings.catch_warnings():
            warnings.simplefilter('ignore')
            rr = outcome(lambda: svg2paths2(fn)[2])
        if rr[0] != 'ok':
            return
        got = rr[1]
        ex = EXTRAS[ei]
        # (only where no svg_attributes are given at all: what wins between a dedicated parameter and a dictionary
        #  that does not mention it is not laid down anywhere)
        if svgat is not None:
            return
        if 'viewbox' in ex and not (svgat and 'viewBox' in svgat):
            want = _nums(ex['viewbox'] if isinstance(ex['viewbox'], str) else ' '.join(map(str, ex['viewbox'])))
            if 'viewBox' not in got or _nums(got['viewBox']) != want:
                acc.violation('svg_attribute_lost_or_changed', dict(sig, which='viewbox parameter'), dict(case, reader='svg2paths'), observed=got.get('viewBox'), expected=want)
        if 'dimensions' in ex:
            for k_, v_ in zip(('width', 'height'), ex['dimensions']):
                if not (svgat and k_ in svgat) and str(got.get(k_)) != str(v_):
                    acc.violation('svg_attribute_lost_or_changed', dict(sig, which='dimensions parameter'), dict(case, reader='svg2paths'), observed=got.get(k_), expected=str(v_))


def read_back(fn, paths, attributes, svgat, case, sig, acc):
    """every reader must return the same paths in the same order, with the supplied attributes"""
    readers = {
        'svg2paths': lambda: svg2paths2(fn),
        'Document': lambda: [(p, dict(p.element.attrib)) for p in Document(fn).paths()],
        'SaxDocument': lambda: (lambda sd: list(zip(sd.flatten_all_paths(), sd.tree)))(SaxDocument(fn)),
    }
    for rname, fn_ in readers.items():
        with warnings.catch_warnings():
            warnings.simplefilter('ignore')
            r = outcome(fn_)
        sg = dict(sig, reader=rname)
        c = dict(case, reader=rname)
        if r[0] != 'ok':
            acc.violation('reader_raises', dict(sg, exc=r[1]), c, observed=r)
            continue
        if rname == 'svg2paths':
            got_paths, got_attrs, got_svg = r[1]
        else:
            got_paths = [x[0] for x in r[1]]
            got_attrs = [x[1] for x in r[1]]
            got_svg = None
        if len(got_paths) != len(paths):
            acc.violation('number_of_paths', sg, c, observed=len(got_paths), expected=len(paths))
            continue
        if rname == 'Document':
            # Document.paths() does not promise document order (stack traversal); match by d/id
            pass
        order_ok = all(same_path(a, b) for a, b in zip(got_paths, paths))
        if not order_ok:
            perm_ok = sorted(map(lambda p: p.d(), got_paths)) == sorted(map(lambda p: p.d(), paths))
            acc.violation('paths_reordered' if perm_ok else 'path_changed', sg, c,
                          observed=[p.d() for p in got_paths], expected=[p.d() for p in paths])
            continue
        if attributes is not None:
            for k, (sup, ret) in enumerate(zip(attributes, got_attrs)):
                if not attrs_contained(sup, ret):
                    ws_only = all(ret.get(k_) == v_ or (isinstance(ret.get(k_), str) and ret.get(k_) == v_.replace('\n', ' ').replace('\t', ' ').replace('\r', ' '))
                                  for k_, v_ in sup.items())
                    acc.violation('attribute_lost_or_changed', dict(sg, only_line_breaks_and_tabs_became_spaces=ws_only), c,
                                  observed={k_: ret.get(k_) for k_ in sup}, expected=sup)
                    break
        if svgat is not None and got_svg is not None:
            if not attrs_contained(svgat, got_svg):
                acc.violation('svg_attribute_lost_or_changed', sg, c, observed={k_: got_svg.get(k_) for k_ in svgat}, expected=svgat)


# ---------------------------------------------------------------- Document histories (graph mode)

DOC_OPS = [
    ['add_path', 'Path', 0, 0, None], ['add_path', 'Path', 2, 1, None], ['add_path', 'segment', 3, 0, None],
    ['add_path', 'dstring', 4, 2, None], ['add_path', 'Path', 1, 2, ['ga']], ['add_path', 'Path', 4, 0, ['ga', 'gb']],
    ['add_path', 'Path', 3, 3, None], ['add_path', 'Path', 0, 4, None], ['add_path', 'Path', 2, 5, None], ['add_path', 'Path', 1, 6, None],
    # a top-level group named like a group that (possibly) already exists deeper down
    ['add_path', 'Path', 3, 1, ['gb']],
    ['add_group', ['gc']], ['save'], ['save_reload'],
    # a path object obtained FROM the document, edited in place, then added again (what is stored must be its
    # current geometry, not what the element it came from says)
    ['readd_edited', 0], ['readd_edited', 1],
]


def apply_history(hist, tmp, tag):
    """replays a history on real objects.  returns (doc, model, filename or None)"""
    P = pool()
    doc = Document()
    model = []       # list of (Path, attrs, group path)
    fn = None
    for i, op in enumerate(hist):
        if op[0] == 'add_path':
            _, how, pi, ai, grp = op
            p = P[pi]
            at = None if ATTRS[ai] is None else dict(ATTRS[ai])
            if how == 'Path':
                arg = p
            elif how == 'segment':
                arg = p[0]
                p = Path(p[0])
            else:
                arg = p.d()
            doc.add_path(arg, attribs=at, group=None if grp is None else list(grp))
            model.append((p, at, grp))
        elif op[0] == 'readd_edited':
            cur = doc.paths()
            if not cur:
                continue
            q = cur[op[1] % len(cur)]
            q.end = q.end + (2 - 1j)
            at = {'id': 'edited%d' % i}
            doc.add_path(q, attribs=at)
            model.append((j2path(path2j(q)), at, None))
        elif op[0] == 'add_group':
            doc.get_or_add_group(list(op[1]))
        elif op[0] in ('save', 'save_reload'):
            fn = os.path.join(tmp, '%s_%d.svg' % (tag, i))
            doc.save(fn)
            if op[0] == 'save_reload':
                doc = Document(fn)
    return doc, model, fn


def model_key(hist):
    """canonical state key: the model (ordered adds), groups created, and save status"""
    adds = [tuple(map(str, op)) for op in hist if op[0] in ('add_path', 'readd_edited')]
    groups = sorted(set(str(op[1]) for op in hist if op[0] == 'add_group'))
    last_save = max([i for i, op in enumerate(hist) if op[0] in ('save', 'save_reload')] + [-1])
    dirty = any(op[0] in ('add_path', 'add_group', 'readd_edited') for op in hist[last_save + 1:]) if last_save >= 0 else None
    reloaded = any(op[0] == 'save_reload' for op in hist)
    return core.canon([adds, groups, dirty, reloaded])


def inspect_doc(hist, tmp, acc):
    tag = 'h' + str(core.h64(core.canon(hist)))
    case = {'what': 'document', 'history': hist}
    with warnings.catch_warnings():
        warnings.simplefilter('ignore')
        r = outcome(lambda: apply_history(hist, tmp, tag))
    nadds = sum(1 for op in hist if op[0] in ('add_path', 'readd_edited'))
    acc.case(case, cls='document/adds%d/%s' % (min(nadds, 3), 'saved' if any(op[0].startswith('save') for op in hist) else 'memory'),
             nontrivial=nadds > 0)
    acc.traces += 1
    sig = {'writer': 'Document'}
    if r[0] != 'ok':
        acc.violation('writer_raises', dict(sig, exc=r[1], last_op=hist[-1][0] if hist else None), case, observed=r)
        return
    doc, model, fn = r[1]
    paths = [m[0] for m in model]
    # the Document's own queries see what was added
    with warnings.catch_warnings():
        warnings.simplefilter('ignore')
        ro = outcome(lambda: doc.paths())
    if ro[0] != 'ok':
        acc.violation('reader_raises', dict(sig, reader='own paths()', exc=ro[1]), case, observed=ro)
    else:
        got = ro[1]
        if len(got) != len(paths) or not all(any(same_path(g, p) for g in got) for p in paths):
            acc.violation('added_paths_not_visible_to_own_queries', dict(sig, reloaded=any(op[0] == 'save_reload' for op in hist)),
                          case, observed=[p.d() for p in got], expected=[p.d() for p in paths])
    # the Document's group queries: the root and every group chain used so far, recursively and not, the group given
    # as element or (below the root) as a list of names, with the optional arguments by keyword and by position
    chains = [None] + sorted({tuple(m[2][:k]) for m in model if m[2] for k in range(1, len(m[2]) + 1)})
    for ch in chains:
        for recursive in (True, False):
            for how in ('element_keyword', 'element_positional', 'names'):
                if ch is None and how == 'names':
                    continue
                if (recursive, how) in ((True, 'element_positional'), (False, 'names')):
                    continue        # (cost: the remaining four combinations name every option once in every spelling)
                if recursive:
                    want = [m[0] for m in model if ch is None or tuple((m[2] or [])[:len(ch)]) == ch]
                else:
                    want = [m[0] for m in model if tuple(m[2] or []) == (ch or ())]

                def q():
                    grp = doc.tree.getroot() if ch is None else (list(ch) if how == 'names' else doc.get_group(list(ch)))
                    if how == 'element_positional':
                        return doc.paths_from_group(grp, recursive)
                    return doc.paths_from_group(grp, recursive=recursive)
                with warnings.catch_warnings():
                    warnings.simplefilter('ignore')
                    rq = outcome(q)
                acc.evaluations += 1
                qsig = dict(sig, query='paths_from_group', group='root' if ch is None else 'depth%d' % len(ch), recursive=recursive)
                if rq[0] != 'ok':
                    acc.violation('reader_raises', dict(qsig, reader='own paths_from_group()', exc=rq[1]), case, observed=rq)
                    break
                gq = rq[1]
                if len(gq) != len(want) or not all(any(same_path(g, p_) for g in gq) for p_ in want):
                    acc.violation('added_paths_not_visible_to_own_queries', dict(qsig, reloaded=any(op[0] == 'save_reload' for op in hist)), case,
                                  observed=[p_.d() for p_ in gq], expected=[p_.d() for p_ in want],
                                  detail='paths_from_group(%r, recursive=%r) [%s]' % (ch, recursive, how))
                    break
            else:
                continue
            break
        else:
            continue
        break
    # every added path sits in exactly the group chain it was added to (direct children all the way down)
    SVGNS = '{http://www.w3.org/2000/svg}'
    for (p_, at_, grp_) in model:
        node = doc.tree.getroot()
        ok_place = True
        for name in (grp_ or []):
            nxt_ = [g for g in list(node) if g.tag in (SVGNS + 'g', 'g') and g.get('id') == name]
            if len(nxt_) != 1:
                ok_place = False
                break
            node = nxt_[0]
        if ok_place:
            here = [e for e in list(node) if e.tag in (SVGNS + 'path', 'path')]
            ok_place = any(same_path(parse_path(e.get('d', '')), p_) for e in here if e.get('d'))
        if not ok_place:
            acc.violation('path_not_in_the_group_it_was_added_to', dict(sig, group_depth=len(grp_ or [])), case,
                          observed='no <path> with this geometry as a direct child of %r' % (grp_,), expected=p_.d())
            break
    # after a save with nothing added since: all readers agree with the model
    if fn is not None and hist and hist[-1][0] in ('save', 'save_reload'):
        attributes = [m[1] or {} for m in model]
        flat = all(m[2] is None for m in model)
        read_back_unordered(fn, paths, attributes, case, dict(sig, grouped=not flat), acc)


def read_back_unordered(fn, paths, attributes, case, sig, acc):
    readers = {
        'svg2paths': lambda: list(zip(*svg2paths(fn))) if paths else [],
        'Document': lambda: [(p, dict(p.element.attrib)) for p in Document(fn).paths()],
        'SaxDocument': lambda: (lambda sd: list(zip(sd.flatten_all_paths(), sd.tree)))(SaxDocument(fn)),
    }
    for rname, fn_ in readers.items():
        with warnings.catch_warnings():
            warnings.simplefilter('ignore')
            r = outcome(fn_)
        sg = dict(sig, reader=rname)
        c = dict(case, reader=rname)
        if r[0] != 'ok':
            acc.violation('reader_raises', dict(sg, exc=r[1]), c, observed=r)
            continue
        got = r[1]
        if len(got) != len(paths):
            acc.violation('number_of_paths', sg, c, observed=len(got), expected=len(paths))
            continue
        # elements in groups come in traversal order; compare as multisets when grouped, in order otherwise
        if not sig.get('grouped'):
            ok = all(same_path(g[0], p) for g, p in zip(got, paths))
        else:
            ok = all(any(same_path(g[0], p) for g in got) for p in paths)
        if not ok:
            acc.violation('path_changed', sg, c, observed=[g[0].d() for g in got], expected=[p.d() for p in paths])
            continue
        for p, at in zip(paths, attributes):
            cands = [g[1] for g in got if same_path(g[0], p)]
            if not any(attrs_contained(at, ret) for ret in cands):
                acc.violation('attribute_lost_or_changed', sg, c, observed=cands[:1], expected=at)
                break


def tier_params(tier, seed):
    return {'depth': 4 if tier == 'quick' else 5, 'wsvg_len': 2 if tier == 'quick' else 3}


def shards(tier, seed):
    tp = tier_params(tier, seed)
    out = [{'what': 'wsvg', 'ai': a, 'si': s, 'fkind': f} for a in range(len(ATTRS)) for s in range(len(SVGATTRS))
           for f in ('plain', 'subdir', 'space')]
    out += [{'what': 'wsvg', 'ai': a, 'si': s_, 'fkind': 'plain', 'ei': e} for a in (0, 1) for s_ in range(len(SVGATTRS)) for e in range(1, len(EXTRAS))]
    # the history graph is enumerated (on the reference model, cheap) by every one of these shards; each inspects
    # the real Document only for its own share of the states
    out += [{'what': 'documents', 'part': i, 'of': 16} for i in range(16)]
    return out


PARALLEL = None


def run_shard(desc, tier, seed):
    acc = core.Acc()
    tp = tier_params(tier, seed)
    tmp = tempfile.mkdtemp(prefix='verif_c18_')
    try:
        if desc['what'] == 'wsvg':
            n = len(pool())
            for L in range(1, tp['wsvg_len'] + 1):
                for idxs in itertools.product(range(n), repeat=L):
                    if desc['fkind'] != 'plain' and L > 1:
                        continue
                    if desc.get('ei') and L > 1 and tier == 'quick':
                        continue
                    check_wsvg(idxs, desc['ai'], desc['si'], desc['fkind'], tmp, acc, ei=desc.get('ei', 0))
        else:
            # BFS over histories, de-duplicated on the reference-model state
            seen = set()
            frontier = [[]]
            seen.add(model_key([]))
            part, of = desc.get('part', 0), desc.get('of', 1)
            mine = lambda k: core.h64(k) % of == part
            if mine(model_key([])):
                inspect_doc([], tmp, acc)
            acc.states = 1 if part == 0 else 0
            for depth in range(tp['depth']):
                nxt = []
                for hist in frontier:
                    for op in DOC_OPS:
                        if op[0] in ('save', 'save_reload') and hist and hist[-1][0] in ('save', 'save_reload'):
                            continue
                        h2 = hist + [op]
                        if part == 0:
                            acc.transitions += 1
                        k = model_key(h2)
                        if k in seen:
                            continue
                        seen.add(k)
                        if mine(k):
                            inspect_doc(h2, tmp, acc)
                        nxt.append(h2)
                frontier = nxt
                if part == 0:
                    acc.states += len(nxt)
                acc.max_depth = depth + 1
    finally:
        shutil.rmtree(tmp, ignore_errors=True)
    return acc


def expected_classes(tier):
    return ['wsvg/attrs0/svg0/plain', 'wsvg/attrs2/svg1/subdir', 'wsvg/attrs1/svg0/space', 'document/adds1/memory',
            'document/adds2/saved', 'document/adds3/saved']


def space(tier, seed):
    tp = tier_params(tier, seed)
    return {'wsvg_extras': [None if e is None else {k: (list(v) if isinstance(v, tuple) else v) for k, v in e.items()} for e in EXTRAS],
            'path_pool': [p.d() for p in pool()], 'attribute_dicts': ATTRS, 'svg_attributes': SVGATTRS,
            'filenames': ['plain', 'in a fresh sub-directory', 'containing a space'], 'wsvg_lists_up_to': tp['wsvg_len'],
            'document_operations': DOC_OPS, 'history_depth': tp['depth'],
            'readers': ['own Document.paths()', 'svg2paths', 'Document(file).paths()', 'SaxDocument(file).flatten_all_paths()']}


def replay(case):
    acc = core.ReplayAcc()
    tmp = tempfile.mkdtemp(prefix='verif_c18_')
    try:
        if case['what'] == 'wsvg':
            check_wsvg(tuple(case['paths']), case['attributes'], case['svg_attributes'], case['filename'], tmp, acc, ei=case.get('extras', 0))
        else:
            inspect_doc(case['history'], tmp, acc)
        if 'reader' in case:
            acc.vlist = [v for v in acc.vlist if v['case'].get('reader') == case['reader']]
        else:
            acc.vlist = [v for v in acc.vlist if 'reader' not in v['case']]
    finally:
        shutil.rmtree(tmp, ignore_errors=True)
    return acc.vlist
