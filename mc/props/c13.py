"""C13  radialrange/closest/farthest point return the global extremes of distance.

Product mode: Bezier library x rotations x query-point families (far, near the
curve, on the curve, centre of curvature, beyond either end along the tangent,
lattice around the box), and paths.  Reference: dense evaluation (4097 points)
of the real point() refined by golden-section search around every local
extremum of the sample.
"""
import itertools
import math

import numpy as np

from mc import core
from mc import alphabets as AB
from mc.enc import outcome, seg_size

from svgpathtools import Line, QuadraticBezier, CubicBezier, Arc, Path
from svgpathtools.path import closest_point_in_path, farthest_point_in_path

ID = 'C13'
LEVEL = 'exploration'
RULE = ('Bezier library x rotations x query point families; paths x query points; one case per (curve, query point); '
        'non-trivial = the minimum or the maximum is attained at an interior parameter; distinct = distinct (curve, point)')
ASSUMPTIONS = ['reference extremes: dense sample of the real point() + golden-section refinement; tolerance 1e-6*size for the extreme values (roots from numpy.roots are ~1e-8 accurate and the distance to an on-curve point has a kink), 1e-9*size for d == |point(t) - z|']

ROTS = [0, 37, 90]
GOLD = (math.sqrt(5) - 1) / 2


def refine(f, a, b, sign):
    """golden-section for min (sign=+1) or max (sign=-1) of f on [a,b]"""
    g = lambda t: sign * f(t)
    c, d = b - GOLD * (b - a), a + GOLD * (b - a)
    gc, gd = g(c), g(d)
    for _ in range(80):
        if gc < gd:
            b, d, gd = d, c, gc
            c = b - GOLD * (b - a)
            gc = g(c)
        else:
            a, c, gc = c, d, gd
            d = a + GOLD * (b - a)
            gd = g(d)
    t = (a + b) / 2
    return f(t), t


def reference(seg, z, n=4097):
    ts = np.linspace(0.0, 1.0, n)
    f = lambda t: abs(seg.point(t) - z)
    d = np.array([f(t) for t in ts])
    best_min = (float(d.min()), float(ts[d.argmin()]))
    best_max = (float(d.max()), float(ts[d.argmax()]))
    for i in range(1, n - 1):
        if d[i] <= d[i - 1] and d[i] <= d[i + 1] and d[i] <= best_min[0] + 1e-6 * (1 + best_min[0]):
            v = refine(f, ts[i - 1], ts[i + 1], +1)
            if v[0] < best_min[0]:
                best_min = v
        if d[i] >= d[i - 1] and d[i] >= d[i + 1] and d[i] >= best_max[0] - 1e-6 * (1 + best_max[0]):
            v = refine(f, ts[i - 1], ts[i + 1], -1)
            if v[0] > best_max[0]:
                best_max = v
    return best_min, best_max


def query_points(seg):
    size = seg_size(seg)
    pts = []
    c = seg.point(0.5)
    for k in range(4):
        pts.append(('far', c + 10 * size * (1j ** k)))
    for t in (0.0, 0.25, 1.0 / 3.0, 0.5, 0.7, 1.0):
        p = seg.point(t)
        pts.append(('on_curve', p))
        h = 1e-6
        a, b = max(0.0, t - h), min(1.0, t + h)
        tan = seg.point(b) - seg.point(a)
        if abs(tan) > 0:
            nrm = 1j * tan / abs(tan)
            pts.append(('near', p + 1e-3 * size * nrm))
            pts.append(('near', p - 1e-3 * size * nrm))
    # centre of curvature at t = 1/2 from finite differences
    h = 1e-3
    p0, p1, p2 = seg.point(0.5 - h), seg.point(0.5), seg.point(0.5 + h)
    d1 = (p2 - p0) / (2 * h)
    d2 = (p2 - 2 * p1 + p0) / (h * h)
    cr = d1.real * d2.imag - d1.imag * d2.real
    if abs(cr) > 1e-9 * abs(d1) ** 3 and abs(d1) > 0:
        R = abs(d1) ** 3 / cr
        if abs(R) < 1e3 * size:
            pts.append(('centre_of_curvature', p1 + 1j * d1 / abs(d1) * R))
    for t, sgn in ((0.0, -1), (1.0, 1)):
        a, b = (0.0, 1e-6) if t == 0 else (1 - 1e-6, 1.0)
        tan = seg.point(b) - seg.point(a)
        if abs(tan) > 0:
            pts.append(('beyond_end', seg.point(t) + sgn * tan / abs(tan) * 0.5 * size))
    xs = [complex(p).real for p in seg.bpoints()]
    ys = [complex(p).imag for p in seg.bpoints()]
    for i in range(4):
        for j in range(4):
            pts.append(('lattice', complex(min(xs) - 0.2 * size + i * (max(xs) - min(xs) + 0.4 * size) / 3 + 0.013,
                                           min(ys) - 0.2 * size + j * (max(ys) - min(ys) + 0.4 * size) / 3 - 0.007)))
    return pts


def check_segment(name, rot, acc, only=None):
    seg = AB.make(name, rot=rot)
    size = seg_size(seg)
    kind = type(seg).__name__[0]
    tol = 1e-9 * size
    for fam, z in query_points(seg):
        case = {'what': 'segment', 'shape': name, 'rot': rot, 'z': core.jz(z), 'family': fam}
        if only and case['z'] != only:
            continue
        (dmin, tmin), (dmax, tmax) = reference(seg, z)
        interior = (1e-6 < tmin < 1 - 1e-6) or (1e-6 < tmax < 1 - 1e-6)
        acc.case(case, cls='%s/%s' % (kind, fam), nontrivial=interior)
        r = outcome(lambda: seg.radialrange(z))
        sig = {'kind': kind, 'family': fam}
        if r[0] != 'ok':
            acc.violation('radialrange_raises', dict(sig, exc=r[1]), case, observed=r)
            continue
        try:
            (gmin, gtmin), (gmax, gtmax) = r[1]
            gmin, gtmin, gmax, gtmax = float(gmin), float(gtmin), float(gmax), float(gtmax)
        except Exception:
            acc.violation('malformed_result', sig, case, observed=repr(r[1]))
            continue
        if not (0 <= gtmin <= 1 and 0 <= gtmax <= 1):
            acc.violation('parameter_out_of_range', sig, case, observed=[gtmin, gtmax])
            continue
        if not (abs(abs(seg.point(gtmin) - z) - gmin) <= tol and abs(abs(seg.point(gtmax) - z) - gmax) <= tol):
            acc.violation('distance_not_distance_of_returned_parameter', sig, case,
                          observed=[gmin, gtmin, gmax, gtmax], expected=[abs(seg.point(gtmin) - z), abs(seg.point(gtmax) - z)])
            continue
        # the extremal parameter comes from numpy.roots of a degree <= 5 polynomial (~1e-8 accurate);
        # for a point ON the curve the distance has a kink there (|B'|*|t - t0|), so the value is only
        # ~1e-7*size accurate: 1e-6*size is the tolerance for "no point is closer / farther"
        if gmin > dmin + 1e-6 * size:
            acc.violation('not_global_minimum', sig, case, observed=[gmin, gtmin], expected=[dmin, tmin])
        if gmax < dmax - 1e-6 * size:
            acc.violation('not_global_maximum', sig, case, observed=[gmax, gtmax], expected=[dmax, tmax])


PATHS = [('L_diagonal', 'Q_generic', 'C_arch'), ('C_sshape', 'C_loop'), ('Q_foldback_real', 'L_vertical'), ('C_cusp',),
         ('L_horizontal', 'L_diagonal', 'L_shallow'), ('Q_nondyadic', 'C_nondyadic', 'L_nondyadic')]


def check_path(word, acc, only=None):
    from mc.props.c09 import chain
    segs = chain(word)
    p = Path(*segs)
    size = max(seg_size(s) for s in segs) * len(segs)
    tol = 1e-9 * size
    zs = []
    for s in segs:
        zs += [z for fam, z in query_points(s) if fam in ('far', 'near', 'beyond_end', 'lattice')][::3]
    # points exactly on the path: its start, every joint, its end, and interior points of each segment
    zs += [segs[0].start] + [s.end for s in segs] + [s.point(0.5) for s in segs]
    for z in zs:
        case = {'what': 'path', 'word': list(word), 'z': core.jz(z)}
        if only and case['z'] != only:
            continue
        refs = [reference(s, z, 1025) for s in segs]
        dmin = min(r[0][0] for r in refs)
        dmax = max(r[1][0] for r in refs)
        acc.case(case, cls='path', nontrivial=len(segs) > 1)
        for fn_name, fn in (('radialrange', lambda: p.radialrange(z)),
                            ('closest_farthest', lambda: (closest_point_in_path(z, p), farthest_point_in_path(z, p)))):
            r = outcome(fn)
            sig = {'kind': 'P', 'fn': fn_name}
            if r[0] != 'ok':
                acc.violation('radialrange_raises', dict(sig, exc=r[1]), case, observed=r)
                continue
            try:
                (gmin, gtmin, imin), (gmax, gtmax, imax) = r[1]
                ok = abs(abs(segs[imin].point(gtmin) - z) - gmin) <= tol and abs(abs(segs[imax].point(gtmax) - z) - gmax) <= tol and \
                    0 <= gtmin <= 1 and 0 <= gtmax <= 1
            except Exception:
                acc.violation('malformed_result', sig, case, observed=repr(r[1]))
                continue
            if not ok:
                acc.violation('distance_not_distance_of_returned_parameter', sig, case, observed=repr(r[1]))
                continue
            if gmin > dmin + 1e-6 * size:
                acc.violation('not_global_minimum', sig, case, observed=[gmin, gtmin, imin], expected=dmin)
            if gmax < dmax - 1e-6 * size:
                acc.violation('not_global_maximum', sig, case, observed=[gmax, gtmax, imax], expected=dmax)


def shards(tier, seed):
    rots = ROTS if tier == 'quick' else ROTS + [180, 211, 300]
    out = [{'what': 'segment', 'shape': n, 'rot': r} for n in list(AB.LINES) + list(AB.QUADS) + list(AB.CUBICS) for r in rots]
    out += [{'what': 'path', 'word': list(w)} for w in PATHS]
    return out


def run_shard(desc, tier, seed):
    acc = core.Acc()
    if desc['what'] == 'segment':
        check_segment(desc['shape'], desc['rot'], acc)
    else:
        check_path(tuple(desc['word']), acc)
    return acc


def expected_classes(tier):
    out = ['path']
    for k in 'LQC':
        out += ['%s/far' % k, '%s/on_curve' % k, '%s/near' % k, '%s/beyond_end' % k, '%s/lattice' % k]
    out += ['Q/centre_of_curvature', 'C/centre_of_curvature']
    return out


def space(tier, seed):
    return {'shapes': list(AB.LINES) + list(AB.QUADS) + list(AB.CUBICS), 'rotations': ROTS if tier == 'quick' else ROTS + [180, 211, 300],
            'query_families': ['far x4', 'on_curve x6', 'near (+-1e-3 size along the normal) x12', 'centre_of_curvature', 'beyond_end x2', 'lattice 4x4'],
            'paths': [list(w) for w in PATHS]}


def replay(case):
    acc = core.ReplayAcc()
    if case['what'] == 'segment':
        check_segment(case['shape'], case['rot'], acc, only=case['z'])
    else:
        check_path(tuple(case['word']), acc, only=case['z'])
    return acc.vlist
