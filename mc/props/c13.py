"""C13  radialrange/closest/farthest point return the global extremes of distance.

Product mode: Bezier library x rotations x query-point families (far, near the
curve, on the curve, centre of curvature, beyond either end along the tangent,
lattice around the box), and paths.  Reference: dense evaluation (4097 points)
of the real point() refined by golden-section search around every local
extremum of the sample (paths), and - for single segments - the EXACT extremes:
|B(t)-z|^2 as a polynomial over Q of the float control points, its critical
points in [0,1] isolated by Sturm sequences (mc/exact.py), so no extremum can
hide between samples.
"""
import itertools
import math

import numpy as np

from mc import core
from mc import alphabets as AB
from mc.enc import outcome, seg_size

from svgpathtools import Line, QuadraticBezier, CubicBezier, Arc, Path
from svgpathtools.path import closest_point_in_path, farthest_point_in_path

ID = 'C13'
LEVEL = 'exploration'
RULE = ('Bezier library x rotations x query point families; paths x query points; one case per (curve, query point); '
        'non-trivial = the minimum or the maximum is attained at an interior parameter; distinct = distinct (curve, point)')
ASSUMPTIONS = ['reference extremes are exact: |B(t)-z|^2 over Q of the float control points, critical points isolated by Sturm sequences (per segment for paths)',
               'tolerance 1e-6*size for the extreme values (roots from numpy.roots are ~1e-8 accurate and the distance to an on-curve point has a kink), 1e-9*size for d == |point(t) - z|']

ROTS = [0, 37, 90]
GOLD = (math.sqrt(5) - 1) / 2


def refine(f, a, b, sign):
    """golden-section for min (sign=+1) or max (sign=-1) of f on [a,b]"""
    g = lambda t: sign * f(t)
    c, d = b - GOLD * (b - a), a + GOLD * (b - a)
    gc, gd = g(c), g(d)
    for _ in range(80):
        if gc < gd:
            b, d, gd = d, c, gc
            c = b - GOLD * (b - a)
            gc = g(c)
        else:
            a, c, gc = c, d, gd
            d = a + GOLD * (b - a)
            gd = g(d)
    t = (a + b) / 2
    return f(t), t


def reference(seg, z, n=4097):
    ts = np.linspace(0.0, 1.0, n)
    f = lambda t: abs(seg.point(t) - z)
    d = np.array([f(t) for t in ts])
    best_min = (float(d.min()), float(ts[d.argmin()]))
    best_max = (float(d.max()), float(ts[d.argmax()]))
    for i in range(1, n - 1):
        if d[i] <= d[i - 1] and d[i] <= d[i + 1] and d[i] <= best_min[0] + 1e-6 * (1 + best_min[0]):
            v = refine(f, ts[i - 1], ts[i + 1], +1)
            if v[0] < best_min[0]:
                best_min = v
        if d[i] >= d[i - 1] and d[i] >= d[i + 1] and d[i] >= best_max[0] - 1e-6 * (1 + best_max[0]):
            v = refine(f, ts[i - 1], ts[i + 1], -1)
            if v[0] > best_max[0]:
                best_max = v
    return best_min, best_max


def exact_extremes(seg, z):
    """((dmin, tmin), (dmax, tmax)) of |seg.point(t) - z| over [0,1], decided over Q"""
    from fractions import Fraction
    from mc.exact import F, QPoly, bezier_to_qpoly
    bp = [complex(q) for q in seg.bpoints()]
    X = bezier_to_qpoly([F(q.real) for q in bp]) - QPoly([F(complex(z).real)])
    Y = bezier_to_qpoly([F(q.imag) for q in bp]) - QPoly([F(complex(z).imag)])
    D = X * X + Y * Y
    dD = D.deriv()
    cands = [Fraction(0), Fraction(1)]
    if not dD.is_zero() and dD.deg() >= 1:
        cands += [(lo + hi) / 2 for lo, hi in dD.isolate(0, 1)]
    vals = [(D(t), t) for t in cands]
    lo_, hi_ = min(vals), max(vals)
    return (math.sqrt(float(lo_[0])), float(lo_[1])), (math.sqrt(float(hi_[0])), float(hi_[1]))


def query_points(seg, lattice_n=4):
    size = seg_size(seg)
    pts = []
    c = seg.point(0.5)
    for k in range(4):
        pts.append(('far', c + 10 * size * (1j ** k)))
    for t in (0.0, 0.25, 1.0 / 3.0, 0.5, 0.7, 1.0):
        p = seg.point(t)
        pts.append(('on_curve', p))
        h = 1e-6
        a, b = max(0.0, t - h), min(1.0, t + h)
        tan = seg.point(b) - seg.point(a)
        if abs(tan) > 0:
            nrm = 1j * tan / abs(tan)
            pts.append(('near', p + 1e-3 * size * nrm))
            pts.append(('near', p - 1e-3 * size * nrm))
    # the evolute: at z = B(t0) + k*rho*n (n towards the centre of curvature, rho the radius of curvature)
    # B(t0) stops being a local minimum of the distance as k passes 1 - the set of critical points
    # changes there.  t0 includes both END points (beyond an end's centre of curvature the end is not the
    # nearest point although the curve leaves it at a right angle to the direction of z).
    bp = [complex(q) for q in seg.bpoints()]
    nb = len(bp) - 1
    if nb >= 2:
        from mc.refgeom import de_casteljau
        d1c = [nb * (bp[i + 1] - bp[i]) for i in range(nb)]
        d2c = [(nb - 1) * (d1c[i + 1] - d1c[i]) for i in range(nb - 1)]
        for t0 in (0.0, 0.25, 0.5, 0.75, 1.0):
            d1, d2 = de_casteljau(d1c, t0), de_casteljau(d2c, t0)
            cr = d1.real * d2.imag - d1.imag * d2.real
            if abs(d1) == 0 or abs(cr) <= 1e-9 * abs(d1) ** 3 / max(size, 1e-300):
                continue
            R = abs(d1) ** 3 / cr               # signed: positive = centre to the left
            if abs(R) > 1e3 * size:
                continue
            p0 = de_casteljau(bp, t0)
            for k in (0.5, 0.9, 1.0, 1.1, 2.0, 5.0):
                if abs(R) * k > 20 * size:
                    continue
                pts.append(('centre_of_curvature' if k == 1.0 and t0 == 0.5 else 'evolute', p0 + 1j * d1 / abs(d1) * R * k))
    for t, sgn in ((0.0, -1), (1.0, 1)):
        a, b = (0.0, 1e-6) if t == 0 else (1 - 1e-6, 1.0)
        tan = seg.point(b) - seg.point(a)
        if abs(tan) > 0:
            pts.append(('beyond_end', seg.point(t) + sgn * tan / abs(tan) * 0.5 * size))
    xs = [complex(p).real for p in seg.bpoints()]
    ys = [complex(p).imag for p in seg.bpoints()]
    m = lattice_n - 1
    for i in range(lattice_n):
        for j in range(lattice_n):
            pts.append(('lattice', complex(min(xs) - 0.2 * size + i * (max(xs) - min(xs) + 0.4 * size) / m + 0.013 * size / 5,
                                           min(ys) - 0.2 * size + j * (max(ys) - min(ys) + 0.4 * size) / m - 0.007 * size / 5)))
    return pts


def check_segment(name, rot, acc, only=None, scale=1.0, shift=0j, lattice_n=4):
    seg = AB.make(name, scale, shift=shift, rot=rot)
    size = seg_size(seg)
    kind = type(seg).__name__[0]
    tol = 1e-9 * (size + abs(shift))
    for fam, z in query_points(seg, lattice_n):
        case = {'what': 'segment', 'shape': name, 'rot': rot, 'z': core.jz(z), 'family': fam}
        if scale != 1.0 or shift != 0 or lattice_n != 4:
            case.update(scale=scale, shift=core.jz(shift), lattice_n=lattice_n)
        if only and case['z'] != only:
            continue
        (dmin, tmin), (dmax, tmax) = exact_extremes(seg, z)
        interior = (1e-6 < tmin < 1 - 1e-6) or (1e-6 < tmax < 1 - 1e-6)
        acc.case(case, cls='%s/%s' % (kind, fam), nontrivial=interior)
        r = outcome(lambda: seg.radialrange(z))
        sig = {'kind': kind, 'family': fam}
        if r[0] != 'ok':
            acc.violation('radialrange_raises', dict(sig, exc=r[1]), case, observed=r)
            continue
        try:
            (gmin, gtmin), (gmax, gtmax) = r[1]
            gmin, gtmin, gmax, gtmax = float(gmin), float(gtmin), float(gmax), float(gtmax)
        except Exception:
            acc.violation('malformed_result', sig, case, observed=repr(r[1]))
            continue
        if not (0 <= gtmin <= 1 and 0 <= gtmax <= 1):
            acc.violation('parameter_out_of_range', sig, case, observed=[gtmin, gtmax])
            continue
        if not (abs(abs(seg.point(gtmin) - z) - gmin) <= tol and abs(abs(seg.point(gtmax) - z) - gmax) <= tol):
            acc.violation('distance_not_distance_of_returned_parameter', sig, case,
                          observed=[gmin, gtmin, gmax, gtmax], expected=[abs(seg.point(gtmin) - z), abs(seg.point(gtmax) - z)])
            continue
        # the extremal parameter comes from numpy.roots of a degree <= 5 polynomial (~1e-8 accurate);
        # for a point ON the curve the distance has a kink there (|B'|*|t - t0|), so the value is only
        # ~1e-7*size accurate: 1e-6*size is the tolerance for "no point is closer / farther"
        if gmin > dmin + 1e-6 * size:
            acc.violation('not_global_minimum', sig, case, observed=[gmin, gtmin], expected=[dmin, tmin])
        if gmax < dmax - 1e-6 * size:
            acc.violation('not_global_maximum', sig, case, observed=[gmax, gtmax], expected=[dmax, tmax])
        # and nothing better than the true extremes can be reported either
        if gmin < dmin - tol - 1e-12 * size or gmax > dmax + tol + 1e-12 * size:
            acc.violation('beyond_true_extreme', sig, case, observed=[gmin, gmax], expected=[dmin, dmax])
        if fam in OPTION_FAMILIES:
            check_option_forms(seg, z, (dmin, dmax), size, tol, kind, dict(case), acc)


OPTION_FAMILIES = ('far', 'beyond_end', 'near')


def check_option_forms(seg, z, truth, size, tol, kind, case, acc):
    """return_all_global_extrema given explicitly: False (keyword, positional) is the default answer; True is either
    refused (NotImplementedError, documented as not implemented) or lists (d, t) pairs every one of which is a point
    of the segment at that distance and a global extreme"""
    dmin, dmax = truth
    import inspect
    # (Line.radialrange takes the option through **kwargs only: the positional spelling is not part of its interface)
    positional_ok = 'return_all_global_extrema' in inspect.signature(type(seg).radialrange).parameters
    for form, fn in (('False_keyword', lambda: seg.radialrange(z, return_all_global_extrema=False)),
                     ('False_positional', lambda: seg.radialrange(z, False)),
                     ('True_keyword', lambda: seg.radialrange(z, return_all_global_extrema=True)),
                     ('True_positional', lambda: seg.radialrange(z, True))):
        if form.endswith('positional') and not positional_ok:
            continue
        r = outcome(fn)
        c = dict(case, option=form)
        sig = {'kind': kind, 'option': form}
        if r[0] != 'ok':
            if form.startswith('True') and r[1] == 'NotImplementedError':
                acc.case(c, cls='%s/option/%s/not_implemented' % (kind, form))
                continue
            acc.violation('radialrange_raises', dict(sig, exc=r[1]), c, observed=r)
            continue
        acc.case(c, cls='%s/option/%s/answered' % (kind, form))
        try:
            mins, maxs = r[1]
            mins = [mins] if not isinstance(mins, list) else mins
            maxs = [maxs] if not isinstance(maxs, list) else maxs
            mins = [(float(d), float(t)) for d, t in mins]
            maxs = [(float(d), float(t)) for d, t in maxs]
            assert mins and maxs
        except Exception:
            acc.violation('malformed_result', sig, c, observed=repr(r[1])[:300])
            continue
        bad = None
        for which, lst, want in (('min', mins, dmin), ('max', maxs, dmax)):
            for d, t in lst:
                if not 0 <= t <= 1:
                    bad = ('parameter_out_of_range', [d, t])
                elif not abs(abs(seg.point(t) - z) - d) <= tol:
                    bad = ('distance_not_distance_of_returned_parameter', [d, t])
                elif abs(d - want) > 1e-6 * size:
                    bad = ('not_global_minimum' if which == 'min' else 'not_global_maximum', [d, t, want])
                if bad:
                    break
            if bad:
                break
        if bad:
            acc.violation(bad[0], sig, c, observed=bad[1], expected=[dmin, dmax])


PATHS = [('L_diagonal', 'Q_generic', 'C_arch'), ('C_sshape', 'C_loop'), ('Q_foldback_real', 'L_vertical'), ('C_cusp',),
         ('L_horizontal', 'L_diagonal', 'L_shallow'), ('Q_nondyadic', 'C_nondyadic', 'L_nondyadic')]


def check_path(word, acc, only=None):
    from mc.props.c09 import chain
    segs = chain(word)
    p = AB.derive_path(Path(*segs))
    size = max(seg_size(s) for s in segs) * len(segs)
    tol = 1e-9 * size
    zs = []
    for s in segs:
        zs += [z for fam, z in query_points(s) if fam in ('far', 'near', 'beyond_end', 'lattice')][::3]
    # points exactly on the path: its start, every joint, its end, and interior points of each segment
    zs += [segs[0].start] + [s.end for s in segs] + [s.point(0.5) for s in segs]
    for z in zs:
        case = {'what': 'path', 'word': list(word), 'z': core.jz(z)}
        if only and case['z'] != only:
            continue
        refs = [exact_extremes(s, z) for s in segs]
        dmin = min(r[0][0] for r in refs)
        dmax = max(r[1][0] for r in refs)
        acc.case(case, cls='path', nontrivial=len(segs) > 1)
        for fn_name, fn in (('radialrange', lambda: p.radialrange(z)),
                            ('closest_farthest', lambda: (closest_point_in_path(z, p), farthest_point_in_path(z, p)))):
            r = outcome(fn)
            sig = {'kind': 'P', 'fn': fn_name}
            if r[0] != 'ok':
                acc.violation('radialrange_raises', dict(sig, exc=r[1]), case, observed=r)
                continue
            try:
                (gmin, gtmin, imin), (gmax, gtmax, imax) = r[1]
                ok = abs(abs(segs[imin].point(gtmin) - z) - gmin) <= tol and abs(abs(segs[imax].point(gtmax) - z) - gmax) <= tol and \
                    0 <= gtmin <= 1 and 0 <= gtmax <= 1
            except Exception:
                acc.violation('malformed_result', sig, case, observed=repr(r[1]))
                continue
            if not ok:
                acc.violation('distance_not_distance_of_returned_parameter', sig, case, observed=repr(r[1]))
                continue
            if gmin > dmin + 1e-6 * size:
                acc.violation('not_global_minimum', sig, case, observed=[gmin, gtmin, imin], expected=dmin)
            if gmax < dmax - 1e-6 * size:
                acc.violation('not_global_maximum', sig, case, observed=[gmax, gtmax, imax], expected=dmax)


def check_special_segments(acc, only=None):
    """(a) zero-length Lines (Python complex and numpy complex128 coordinates, as the library's own transforms
    produce them): both extremes are the distance to that point; (b) straight lines stored as quadratics /
    cubics with control points at 1/2 resp. 1/3, 2/3 of the chord COMPUTED IN FLOATS for non-dyadic chords: the
    leading coefficients of |B(t)-z|^2 are then rounding residue (1e-17 .. 1e-30), which a root finder must
    survive"""
    zs = [0.7 + 1.9j, -3.1 + 0.4j, 10.3 - 7.7j]
    for form in ('python', 'numpy', 'rotated_path'):
        for p0 in (1.5 - 0.5j, 0.1 + 0.3j):
            if form == 'python':
                seg = Line(p0, p0)
            elif form == 'numpy':
                seg = Line(np.complex128(p0), np.complex128(p0))
            else:
                seg = Path(Line(p0 - 1, p0), Line(p0, p0), Line(p0, p0 + 1j)).rotated(30, origin=0j)[1]
            for z in zs:
                case = {'what': 'special', 'kind': 'zero_length_line', 'form': form, 'p': core.jz(p0), 'z': core.jz(z)}
                if only and case != only:
                    continue
                acc.case(case, cls='special/zero_length_line', nontrivial=False)
                r = outcome(lambda: seg.radialrange(z))
                want = abs(complex(seg.start) - z)
                ok = r[0] == 'ok'
                if ok:
                    try:
                        (a, ta), (b, tb) = r[1]
                        ok = abs(float(a) - want) <= 1e-12 and abs(float(b) - want) <= 1e-12 and 0 <= float(ta) <= 1 and 0 <= float(tb) <= 1
                    except Exception:
                        ok = False
                if not ok:
                    acc.violation('not_global_minimum', {'kind': 'L', 'family': 'zero_length', 'form': form}, case, observed=repr(r)[:200], expected=want)
    k = 0
    for i in range(0, 11, 2):
        for j in range(1, 11, 3):
            for di in range(1, 8, 2):
                for dj in range(-5, 6, 5):
                    a = complex(0.1 * i, 0.1 * j)
                    b = complex(0.1 * i + 0.3 * di, 0.1 * j + 0.7 * dj + 0.1)
                    k += 1
                    for deg in (2, 3):
                        if deg == 2:
                            seg = QuadraticBezier(a, (a + b) / 2, b)
                        else:
                            seg = CubicBezier(a, a + (b - a) / 3, a + 2 * (b - a) / 3, b)
                        m = a + 0.37 * (b - a)
                        n_ = 1j * (b - a) / abs(b - a)
                        for z in (m + 3.58 * n_, m - 0.01 * n_, a - 0.5 * (b - a) + 0.2 * n_):
                            case = {'what': 'special', 'kind': 'elevated_line', 'a': core.jz(a), 'b': core.jz(b), 'degree': deg, 'z': core.jz(z)}
                            if only and case != only:
                                continue
                            size = seg_size(seg)
                            (dmin, tmin), (dmax, tmax) = exact_extremes(seg, z)
                            acc.case(case, cls='special/elevated_line', nontrivial=1e-6 < tmin < 1 - 1e-6)
                            r = outcome(lambda: seg.radialrange(z))
                            sig = {'kind': 'Q' if deg == 2 else 'C', 'family': 'elevated_line'}
                            if r[0] != 'ok':
                                acc.violation('radialrange_raises', dict(sig, exc=r[1]), case, observed=r)
                                continue
                            (gmin, gtmin), (gmax, gtmax) = r[1]
                            if float(gmin) > dmin + 1e-6 * size:
                                acc.violation('not_global_minimum', sig, case, observed=[float(gmin), float(gtmin)], expected=[dmin, tmin])
                            if float(gmax) < dmax - 1e-6 * size:
                                acc.violation('not_global_maximum', sig, case, observed=[float(gmax), float(gtmax)], expected=[dmax, tmax])


def check_long(n, kinds, acc, only=None):
    """paths of n segments for every n in a list bracketing the powers of two (a pruned or vectorised
    reduction has a size threshold): Path-level answers against the reduction over the segments' own
    radialrange (decided above), and against the exact extremes for n <= 9"""
    from mc import longpaths as LP
    segs = LP.zigzag(n, kinds, amp=1.0 + 0.1 * (n % 3), step=1.0)
    p = AB.derive_path(Path(*segs))
    size = n * 1.0 + 2.0
    mid = segs[n // 2]
    zs = [complex(-5.0, 0.3), complex(n + 5.0, -0.4), complex(n / 2.0 + 0.21, 40.0), complex(n / 2.0 - 0.17, -35.0),
          mid.point(0.5) + 0.05j, mid.point(0.5) - 0.3j, segs[0].point(0.3) + 0.02, segs[-1].point(0.8) - 0.02j]
    # next to INTERIOR control points: a control point is near z although the curve is not
    for s_ in (segs[0], mid, segs[-1]):
        bp = list(s_.bpoints())
        for q in bp[1:-1]:
            zs.append(q + 0.01 - 0.02j)
    for zi, z in enumerate(zs):
        case = {'what': 'long', 'n': n, 'kinds': kinds, 'z': core.jz(z)}
        if only and case['z'] != only:
            continue
        acc.case(case, cls='long/%s' % ('ge32' if n >= 32 else 'lt32'), nontrivial=n > 1)
        (wmin, wtmin, wimin), (wmax, wtmax, wimax) = LP.reduce_radialrange(segs, z)
        if n <= 9:
            ex = [exact_extremes(s_, z) for s_ in segs]
            wmin = min(wmin, min(e[0][0] for e in ex) + 1e-6 * size)
            wmax = max(wmax, max(e[1][0] for e in ex) - 1e-6 * size)
        for fn_name, fn in (('radialrange', lambda: p.radialrange(z)),
                            ('closest_farthest', lambda: (closest_point_in_path(z, p), farthest_point_in_path(z, p)))):
            r = outcome(fn)
            sig = {'kind': 'P', 'fn': fn_name, 'long': True, 'n_ge_32': n >= 32}
            if r[0] != 'ok':
                acc.violation('radialrange_raises', dict(sig, exc=r[1]), case, observed=r)
                continue
            try:
                (gmin, gtmin, imin), (gmax, gtmax, imax) = r[1]
                ok = abs(abs(segs[imin].point(gtmin) - z) - gmin) <= 1e-9 * size and \
                    abs(abs(segs[imax].point(gtmax) - z) - gmax) <= 1e-9 * size and 0 <= gtmin <= 1 and 0 <= gtmax <= 1
            except Exception:
                acc.violation('malformed_result', sig, case, observed=repr(r[1]))
                continue
            if not ok:
                acc.violation('distance_not_distance_of_returned_parameter', sig, case, observed=repr(r[1]))
                continue
            if gmin > wmin + 1e-9 * size:
                acc.violation('not_global_minimum', sig, case, observed=[gmin, gtmin, imin], expected=[wmin, wtmin, wimin])
            if gmax < wmax - 1e-9 * size:
                acc.violation('not_global_maximum', sig, case, observed=[gmax, gtmax, imax], expected=[wmax, wtmax, wimax])


def shards(tier, seed):
    rots = ROTS if tier == 'quick' else ROTS + [180, 211, 300]
    out = [{'what': 'segment', 'shape': n, 'rot': r} for n in list(AB.LINES) + list(AB.QUADS) + list(AB.CUBICS) for r in rots]
    out += [{'what': 'path', 'word': list(w)} for w in PATHS]
    out.append({'what': 'special'})
    # drawing regimes (both tiers): tiny, huge, ordinary size far from the origin
    out += [{'what': 'segment', 'shape': n, 'rot': 0, 'scale': sc, 'shift': sh, 'lattice_n': 4}
            for n in list(AB.LINES) + list(AB.QUADS) + list(AB.CUBICS) for sc, sh in ((1e-9, 0j), (1e9, 0j), (1.0, 1.0e6 + 1.0e6j), (1e-4, 1.0e6 + 1.0e6j))]
    out += AB.provenance_shards(out, tier, lambda d: d['what'] == 'segment' and d['rot'] in (0, 37) and 'scale' not in d)
    out += AB.provenance_shards(out, 'thorough', lambda d: d['what'] == 'path', key='pprov')       # cheap: every history in both tiers
    out += AB.provenance_shards(out, tier, lambda d: d['what'] == 'long' and d['n'] in (3, 33, 64), key='pprov')
    from mc import longpaths as LP
    out += [{'what': 'long', 'n': n, 'kinds': k} for n in (LP.SIZES_QUICK if tier == 'quick' else LP.SIZES_THOROUGH)
            for k in (('L', 'LQC') if tier == 'quick' else ('L', 'Q', 'C', 'LQC', 'CL'))]
    if tier == 'thorough':
        # finer lattice of query points, other scales, far from the origin
        out += [{'what': 'segment', 'shape': n, 'rot': r, 'scale': sc, 'shift': sh, 'lattice_n': 9}
                for n in list(AB.LINES) + list(AB.QUADS) + list(AB.CUBICS) for r in (0, 37, 211)
                for sc, sh in ((1.0, 0j), (1e-3, 0j), (1e4, 0j), (1.0, 3.0e3 - 2.0e3j))]
    return out


def run_shard(desc, tier, seed):
    acc = core.Acc()
    if desc['what'] == 'segment':
        check_segment(desc['shape'], desc['rot'], acc, scale=desc.get('scale', 1.0), shift=complex(desc.get('shift', 0j)),
                      lattice_n=desc.get('lattice_n', 4))
    elif desc['what'] == 'special':
        check_special_segments(acc)
    elif desc['what'] == 'long':
        check_long(desc['n'], desc['kinds'], acc)
    else:
        check_path(tuple(desc['word']), acc)
    return acc


def expected_classes(tier):
    out = ['path', 'long/ge32', 'long/lt32', 'special/zero_length_line', 'special/elevated_line']
    for k in 'LQC':
        out += ['%s/far' % k, '%s/on_curve' % k, '%s/near' % k, '%s/beyond_end' % k, '%s/lattice' % k]
    out += ['Q/centre_of_curvature', 'C/centre_of_curvature', 'Q/evolute', 'C/evolute']
    return out


def space(tier, seed):
    return {'shapes': list(AB.LINES) + list(AB.QUADS) + list(AB.CUBICS), 'rotations': ROTS if tier == 'quick' else ROTS + [180, 211, 300],
            'query_families': ['far x4', 'on_curve x6', 'near (+-1e-3 size along the normal) x12', 'centre_of_curvature', 'evolute: B(t0) + k*rho*n for t0 in {0,1/4,1/2,3/4,1}, k in {0.5,0.9,1,1.1,2,5}', 'beyond_end x2', 'lattice 4x4'],
            'paths': [list(w) for w in PATHS],
            'long_paths': 'zigzag paths of n segments (kinds L / LQC; thorough also Q, C, CL) for n in mc.longpaths.SIZES_* (every power of two up to 256 (512) and its neighbours); Path-level answers against the reduction over the segments',
            'thorough_only': 'all shapes x rot {0,37,211} x (scale, shift) in {(1,0),(1e-3,0),(1e4,0),(1,3e3-2e3j)} with a 9x9 lattice' if tier == 'thorough' else None}


def replay(case):
    acc = core.ReplayAcc()
    if case['what'] == 'special':
        check_special_segments(acc, only=case)
    elif case['what'] == 'long':
        check_long(case['n'], case['kinds'], acc, only=case['z'])
    elif case['what'] == 'segment':
        check_segment(case['shape'], case['rot'], acc, only=case['z'], scale=case.get('scale', 1.0),
                      shift=complex(*case['shift']) if 'shift' in case else 0j, lattice_n=case.get('lattice_n', 4))
    else:
        check_path(tuple(case['word']), acc, only=case['z'])
    return acc.vlist
