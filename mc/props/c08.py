"""C08  bbox() contains the curve and every side of it is touched by the curve.

Product mode: Bezier shape library x rotations x scales (emphasis on cubics whose
coordinate polynomial degenerates, exactly and by rounding), a grid of arcs built
from the centre parameterisation (rotation x radii x start angle x sweep span so
that 0..4 axis extremes are crossed), and paths.  Oracle: exact extrema of each
coordinate polynomial by Sturm root isolation over Q (Beziers), analytic critical
angles filtered by the independently computed sweep (arcs).
"""
import itertools
import cmath
import math
import warnings
from fractions import Fraction

from mc import core, refgeom
from mc import alphabets as AB
from mc.exact import F, QPoly, bezier_to_qpoly
from mc.enc import outcome, seg2j, j2seg

from svgpathtools import Line, QuadraticBezier, CubicBezier, Arc, Path

ID = 'C08'
LEVEL = 'exploration'
RULE = ('Bezier library x rotations x scales, arc grid (rotation x radii x start angle x span), paths; one case per '
        'segment/path; non-trivial = at least one box side is attained at an interior parameter; distinct = distinct segment')
ASSUMPTIONS = ['exact extrema of float-coefficient Beziers via rational root isolation (mc/exact.py)',
               'arc boxes are compared with the extrema of the curve the Arc object itself represents (stored centre/angles); whether that is the right ellipse is C04']

ROTS = [0, 90, 180, 270, 37, 211, 45]
SCALES = [1.0, 1e-3, 1e3, 1e-9, 1e9]
# (scale, shift): ordinary and small shapes a million units from the origin
FAR = [(1.0, 1.0e6 + 1.0e6j), (1e-4, 1.0e6 + 1.0e6j)]


def bezier_true_box(pts):
    out = []
    for comp in (lambda z: z.real, lambda z: z.imag):
        vals = [F(comp(complex(p))) for p in pts]
        poly = bezier_to_qpoly(vals)
        cands = [poly(0), poly(1)]
        interior = False
        d = poly.deriv()
        if d.deg() >= 1:
            for lo, hi in d.isolate(0, 1, width=Fraction(1, 2 ** 70)):
                m = (lo + hi) / 2
                if 0 < m < 1:
                    cands.append(poly(m))
        mn, mx = min(cands), max(cands)
        interior = (mn < min(cands[0], cands[1])) or (mx > max(cands[0], cands[1]))
        out.append((float(mn), float(mx), interior))
    return out


def arc_true_box(seg):
    """true box of the curve the Arc object represents (its own stored centre, radii,
    rotation, theta, delta - whether those are the right ones is C04's question), from
    analytic critical angles"""
    rx, ry = seg.radius.real, seg.radius.imag
    phi = math.radians(seg.rotation)
    c, s = math.cos(phi), math.sin(phi)
    th0 = math.radians(seg.theta)
    th1 = th0 + math.radians(seg.delta)
    lo, hi = min(th0, th1), max(th0, th1)

    def pt(a):
        x = rx * math.cos(a)
        y = ry * math.sin(a)
        return complex(c * x - s * y + seg.center.real, s * x + c * y + seg.center.imag)
    out = []
    ncrit = 0
    for which in (0, 1):
        base = math.atan2(-ry * s, rx * c) if which == 0 else math.atan2(ry * c, rx * s)
        cands = [pt(th0), pt(th1)]
        k0 = math.floor((lo - base) / math.pi) - 1
        for k in range(k0, k0 + 8):
            a = base + k * math.pi
            if lo < a < hi:
                cands.append(pt(a))
                ncrit += 1
        v = [(z.real if which == 0 else z.imag) for z in cands]
        out.append((min(v), max(v), len(cands) > 2))
    return out, ncrit


def check_box(seg, truebox, tol, case, acc, sig):
    r = outcome(lambda: seg.bbox())
    if r[0] != 'ok' or len(r[1]) != 4:
        acc.violation('bbox_raises', dict(sig, exc=r[1] if r[0] != 'ok' else 'shape'), case, observed=r)
        return
    xmin, xmax, ymin, ymax = [float(v) for v in r[1]]
    (txmin, txmax, _), (tymin, tymax, _) = truebox
    for name, got, want in (('xmin', xmin, txmin), ('xmax', xmax, txmax), ('ymin', ymin, tymin), ('ymax', ymax, tymax)):
        if not abs(got - want) <= tol:
            loose = (got < want) if name.endswith('min') else (got > want)
            acc.violation('side_not_tight' if loose else 'curve_sticks_out',
                          dict(sig, side=name[0]), case, observed={name: got}, expected={name: want},
                          detail='tolerance %g' % tol)
            return
    # containment of the library's own point() on a dense grid (ties bbox to point)
    for i in range(129):
        z = seg.point(i / 128.0)
        if not (xmin - tol <= z.real <= xmax + tol and ymin - tol <= z.imag <= ymax + tol):
            acc.violation('point_outside_box', sig, case, observed=[core.jz(z), [xmin, xmax, ymin, ymax]],
                          detail='t=%r' % (i / 128.0))
            return


def check_bezier(name, rot, scale, acc, shift=0j):
    seg = AB.make(name, scale, rot=rot, shift=shift)
    pts = list(seg.bpoints())
    tb = bezier_true_box(pts)
    size = max(abs(complex(p)) for p in pts) + 1e-300
    if shift:
        # far from the origin the tolerance is relative to the EXTENT of the curve, plus the spacing of floats out there
        size = max(abs(complex(p) - complex(pts[0])) for p in pts) + 1e-300
    kind = type(seg).__name__[0]
    degenerate = 'regular'
    if kind == 'C':
        for comp in (lambda z: z.real, lambda z: z.imag):
            a = [comp(complex(p)) for p in pts]
            den = a[0] - 3 * a[1] + 3 * a[2] - a[3]
            if den == 0:
                degenerate = 'denom_zero'
            elif abs(den) <= 1e-12 * max(abs(x) for x in a) and degenerate == 'regular':
                degenerate = 'denom_tiny'
    interior = tb[0][2] or tb[1][2]
    case = {'what': 'bezier', 'shape': name, 'rot': rot, 'scale': scale}
    if shift:
        case['shift'] = core.jz(shift)
    acc.case(case, cls='%s/%s/%s' % (kind, degenerate, 'interior_extremum' if interior else 'endpoints_only'),
             nontrivial=interior)
    check_box(seg, tb, 1e-9 * size + 64 * 2.0 ** -52 * abs(shift), case, acc, dict({'kind': kind, 'degenerate': degenerate}, **({'far_from_origin': True} if shift else {})))
    if rot in (0, 37) and scale == 1.0:
        check_pieces(seg, case, acc)


LATTICE_T = [0j, 1 + 0j, 1j, 2.5 - 1j, -0.3 + 0.7j, 0.1 + 1j / 3, 4 + 4j, -2 - 0.5j, 1e-6 + 0j]


def check_lattice_bezier(idx, acc):
    """thorough tier: every assignment of 3 / 4 control points over a 9-value lattice (all coincidence
    patterns, folds, loops, degree-degenerate cases that the named shapes do not list)"""
    pts = [LATTICE_T[i] for i in idx]
    cls_ = {3: QuadraticBezier, 4: CubicBezier}[len(pts)]
    if all(q == pts[0] for q in pts):
        return
    seg = cls_(*pts)
    tb = bezier_true_box(pts)
    size = max(abs(q) for q in pts) + 1e-300
    case = {'what': 'lattice_bezier', 'idx': list(idx)}
    acc.case(case, cls='lattice/%s' % cls_.__name__[0], nontrivial=tb[0][2] or tb[1][2])
    check_box(seg, tb, 1e-9 * size, case, acc, {'kind': cls_.__name__[0], 'degenerate': 'lattice'})


INT_SHAPES = {
    'L_int': (2, 9), 'Q_int': (0, 7, 3), 'Q_int_overshoot': (5, -6, 5), 'C_int': (0, 30, 60, 91), 'C_int_wiggle': (0, 50, -40, 10),
    # the same wiggle with integers that need more than 32 bits (their squares more than 64)
    'C_int_huge': (0, 5 * 10 ** 9, -4 * 10 ** 9, 10 ** 9), 'Q_int_huge': (7 * 10 ** 9, -6 * 10 ** 9, 7 * 10 ** 9),
    'C_int_2pow62': (0, 2 ** 62, -2 ** 62, 2 ** 61), 'C_mixed_int_float': (0, 5 * 10 ** 9, -4.0e9, 10 ** 9),
}


def check_int_bezier(name, acc):
    """control points given as plain Python ints (a curve on the real axis), small and beyond 32 / 64 bits"""
    pts = INT_SHAPES[name]
    cls_ = {2: Line, 3: QuadraticBezier, 4: CubicBezier}[len(pts)]
    seg = cls_(*pts)
    tb = bezier_true_box(list(pts))
    size = float(max(abs(p) for p in pts)) + 1e-300
    kind = cls_.__name__[0]
    case = {'what': 'int_bezier', 'shape': name}
    acc.case(case, cls='int_control_points/%s' % kind)
    check_box(seg, tb, 1e-9 * size, case, acc, {'kind': kind, 'degenerate': 'int_control_points'})


def arc_grid(tier):
    radii = [(2.0, 2.0), (3.0, 1.0), (100.0, 1.0)]
    phis = [0, 90, 30, -45, 123.4, 400, -725, 180, 270]
    th1s = [10.0, 100.0, 200.0, -30.0, 0.0, 90.0]
    if tier == 'thorough':
        radii = radii + [(2e-3, 2e-3), (3e3, 1e3), (1.0, 100.0), (5.0, 4.99)]
        th1s = th1s + [-170.0, 179.0, 45.0, 135.0]
    spans = [40.0, 130.0, 200.0, 300.0, 350.0, -40.0, -130.0, -200.0, -300.0, -350.0, 90.0, -180.0 + 1e-3]
    for (rx, ry), phi, th1, dth in itertools.product(radii, phis, th1s, spans):
        yield rx, ry, phi, th1, dth


def arc_from_center(rx, ry, phi, th1, dth, center=1.5 - 0.5j):
    c, s = math.cos(math.radians(phi)), math.sin(math.radians(phi))

    def pt(a):
        x, y = rx * math.cos(math.radians(a)), ry * math.sin(math.radians(a))
        return complex(c * x - s * y, s * x + c * y) + center
    return (pt(th1), complex(rx, ry), phi, abs(dth) > 180, dth > 0, pt(th1 + dth))


PIECES = [('cropped', 0.25, 0.6), ('cropped', 0.5, 1.0), ('cropped', 0.0, 0.5), ('cropped', 0.8, 0.2), ('split0', 0.5, None), ('split1', 0.5, None), ('split1', 0.125, None)]


def check_pieces(seg, case, acc, only=None):
    for how, a, b in PIECES:
        if only is not None and only != [how, a, b]:
            continue
        with warnings.catch_warnings():
            warnings.simplefilter('ignore')
            r = outcome(lambda: seg.cropped(a, b) if how == 'cropped' else seg.split(a)[int(how[-1])])
        c = dict(case, piece=[how, a, b])
        if r[0] != 'ok':
            if how == 'cropped' and a > b:
                continue        # descending windows are refused for some kinds: C09's question
            acc.violation('bbox_raises', {'kind': type(seg).__name__[0], 'piece': how, 'exc': r[1]}, c, observed=r)
            continue
        piece = r[1]
        if isinstance(piece, Arc):
            tb, ncrit = arc_true_box(piece)
            size = abs(piece.radius.real) + abs(piece.radius.imag) + abs(piece.center)
            slack = 2 * max(abs(piece.point(0) - piece.start), abs(piece.point(1) - piece.end))
            # (the nominal end points are allowed to be ~1e-8 of the size away from point(0), point(1): C04 / C09)
            if slack > 1e-6 * size:
                acc.violation('piece_does_not_start_or_end_where_it_says', {'kind': 'A', 'piece': how}, c, observed=[piece.point(0), piece.point(1)], expected=[piece.start, piece.end])
                continue
            acc.case(c, cls='A/piece/%s' % how)
            check_box(piece, tb, max(1e-9 * size, slack), c, acc, {'kind': 'A', 'piece': how})
        else:
            pts = list(piece.bpoints())
            size = max(abs(complex(p)) for p in pts) + 1e-300
            acc.case(c, cls='%s/piece/%s' % (type(piece).__name__[0], how))
            check_box(piece, bezier_true_box(pts), 1e-9 * size, c, acc, {'kind': type(piece).__name__[0], 'piece': how})


def check_strict_small(acc, only=None):
    """arcs built with autoscale_radius=False whose radii are a hair too small for the chord (no ellipse fits): the
    constructor refuses them; if it ever hands one out, the box property must hold for it like for any arc"""
    for shrink in (1e-8, 1e-6, 5e-6, 1e-5, 1e-4, 1e-3):
        for (s_, e_, ratio, rot) in ((0j, 100 + 100j, 1.0, 0.0), (1 + 1j, 41 - 9j, 0.5, 30.0), (-3j, 7 + 2j, 2.0, -45.0)):
            for la, sw in ((0, 0), (0, 1), (1, 0), (1, 1)):
                case = {'what': 'strict_small', 'shrink': shrink, 'ends': [core.jz(s_), core.jz(e_)], 'ratio': ratio, 'rot': rot, 'flags': [la, sw]}
                if only is not None and only != case:
                    continue
                # the smallest fitting ellipse with this axis ratio and rotation: lambda == 1 for radii (r, ratio r)
                h = (e_ - s_) / 2 * cmath.exp(-1j * math.radians(rot))
                r = math.sqrt(h.real ** 2 + (h.imag / ratio) ** 2)
                radius = complex(r * (1 - shrink), ratio * r * (1 - shrink))
                got = outcome(lambda: Arc(s_, radius, rot, la, sw, e_, autoscale_radius=False))
                acc.case(case, cls='A/strict_too_small/%s' % ('refused' if got[0] != 'ok' else 'constructed'))
                if got[0] == 'ok':
                    check_arc(None, case, acc, seg=got[1])


def check_arc(spec, case, acc, seg=None):
    seg = Arc(*spec) if seg is None else seg
    tb, ncrit = arc_true_box(seg)
    size = abs(seg.radius.real) + abs(seg.radius.imag) + abs(seg.center)
    if spec is None:
        spec = (seg.start, seg.radius, seg.rotation, seg.large_arc, seg.sweep, seg.end)
    acc.case(case, cls='A/crit%d/%s' % (min(ncrit, 4), 'axis_aligned' if spec[2] % 90 == 0 else 'rotated'), nontrivial=ncrit > 0)
    # bbox() may use the nominal end points while the curve is point(t); how far those are apart
    # is C04's question, so that distance is granted here
    # (granted up to 1e-6 of the size: beyond that the curve simply does not reach the end points its box is built from)
    slack = min(2 * max(abs(seg.point(0) - seg.start), abs(seg.point(1) - seg.end)), 1e-6 * size)
    check_box(seg, tb, max(1e-9 * size, slack), case, acc, {'kind': 'A', 'rotated': spec[2] % 90 != 0, 'sweep': bool(spec[4])})


PATHS = [('L_diagonal', 'C_arch', 'A_ellipse_rot30'), ('Q_generic',), ('C_elevated_quad_rounded', 'L_vertical'),
         ('A_circle_large_cw', 'Q_foldback_diag'), ('C_loop', 'C_sshape', 'Q_nondyadic')]


def check_path(word, acc):
    segs = [AB.make(n, shift=complex(3 * i, -2 * i)) for i, n in enumerate(word)]
    p = AB.derive_path(Path(*segs))
    bs = [s.bbox() for s in segs]
    exp = (min(b[0] for b in bs), max(b[1] for b in bs), min(b[2] for b in bs), max(b[3] for b in bs))
    r = outcome(lambda: tuple(p.bbox()))
    case = {'what': 'path', 'word': list(word)}
    acc.case(case, cls='path', nontrivial=len(word) > 1)
    if r[0] != 'ok' or tuple(map(float, r[1])) != tuple(map(float, exp)):
        acc.violation('path_box_not_union', {}, case, observed=r, expected=exp)


def check_long(n, kinds, variant, acc):
    """Path.bbox is the union of the segment boxes for paths of every size (sizes bracket the powers of
    two: a vectorised reduction has a threshold), continuous or with gaps, with one long stroke"""
    from mc import longpaths as LP
    if variant == 'continuous':
        segs = LP.zigzag(n, kinds)
    elif variant == 'gaps':
        segs = LP.zigzag(n, kinds, gaps=tuple(range(2, n, 5)) + ((n - 1,) if n > 1 else ()))
    elif variant == 'long_stroke':
        segs = LP.zigzag(n, kinds, long_stroke_at=n // 3, gaps=(n // 3 + 1,) if n // 3 + 1 < n else ())
    elif variant == 'comb':
        segs = LP.comb(n, kinds=kinds, with_long=(n // 2) if n > 2 else None)
    else:
        # a gap right after a segment whose END point is the extreme of the whole path
        segs = LP.zigzag(n, kinds)
        k = n // 2
        far = segs[k].start + complex(1000.0, 300.0)
        segs[k] = Line(segs[k].start, far)
    p = AB.derive_path(Path(*segs))
    exp = LP.union_bbox(segs)
    r = outcome(lambda: tuple(p.bbox()))
    case = {'what': 'long', 'n': n, 'kinds': kinds, 'variant': variant}
    acc.case(case, cls='long/%s' % ('ge128' if n >= 128 else 'lt128'), nontrivial=n > 1)
    if r[0] != 'ok' or tuple(map(float, r[1])) != tuple(map(float, exp)):
        acc.violation('path_box_not_union', {'long': True, 'variant': variant, 'n_ge_128': n >= 128}, case, observed=r, expected=exp)


LONG_VARIANTS = ['continuous', 'gaps', 'long_stroke', 'comb', 'extreme_end_before_gap']


def shards(tier, seed):
    out = [{'what': 'long', 'kinds': k} for k in ('L', 'LQC', 'C')]
    out += [{'what': 'bezier', 'shape': n} for n in list(AB.LINES) + list(AB.QUADS) + list(AB.CUBICS)]
    out += [{'what': 'elevated', 'k': k} for k in range(4)]
    out += [{'what': 'arcs', 'k': k} for k in range(8)]
    out += [{'what': 'libarcs'}, {'what': 'paths'}, {'what': 'int_beziers'}, {'what': 'negative_radius_arcs'}, {'what': 'strict_small'}]
    out += AB.provenance_shards(out, tier, lambda d: d['what'] in ('bezier', 'libarcs'))
    out += AB.provenance_shards(out, tier, lambda d: d['what'] in ('paths', 'long'), key='pprov')
    if {'what': 'libarcs', 'prov': 'strict_arc'} not in out:
        out.append({'what': 'libarcs', 'prov': 'strict_arc'})
    if tier == 'thorough':
        out += [{'what': 'lattice', 'part': [i, 32]} for i in range(32)]
    return out


def elevated_family(tier):
    """degree-elevated quadratics / lines on a 0.1 grid: the cubic's coordinate polynomial has
    degree < 3 analytically; in floats the leading coefficient is 0 or ~1e-17"""
    vals = [i / 10.0 for i in range(11)] if tier == 'quick' else [i / 10.0 for i in range(11)] + [1.0 / 3, 0.7000000000000001, 1e-3]
    for x0, x1, x2 in itertools.product(vals, repeat=3):
        yield x0, x1, x2


def check_elevated(x, y, acc):
    q = [complex(a, b) for a, b in zip(x, y)]
    pts = [q[0], q[0] + 2.0 / 3.0 * (q[1] - q[0]), q[2] + 2.0 / 3.0 * (q[1] - q[2]), q[2]]
    if pts[0] == pts[1] == pts[2] == pts[3]:
        return
    seg = CubicBezier(*pts)
    tb = bezier_true_box(pts)
    size = max(abs(p) for p in pts) + 1e-300
    a = [p.real for p in pts]
    den = a[0] - 3 * a[1] + 3 * a[2] - a[3]
    degenerate = 'denom_zero' if den == 0 else ('denom_tiny' if abs(den) < 1e-12 else 'regular')
    interior = tb[0][2] or tb[1][2]
    case = {'what': 'elevated', 'x': list(x), 'y': list(y)}
    acc.case(case, cls='elevated/%s/%s' % (degenerate, 'interior_extremum' if interior else 'endpoints_only'), nontrivial=interior)
    check_box(seg, tb, 1e-9 * size, case, acc, {'kind': 'C', 'degenerate': 'elevated_' + degenerate})


def run_shard(desc, tier, seed):
    acc = core.Acc()
    if desc['what'] == 'bezier':
        for rot in ROTS:
            for sc in SCALES:
                check_bezier(desc['shape'], rot, sc, acc)
        for sc, sh in FAR:
            for rot in (0, 37):
                check_bezier(desc['shape'], rot, sc, acc, shift=sh)
    elif desc['what'] == 'elevated':
        for i, x in enumerate(elevated_family(tier)):
            if i % 4 != desc['k']:
                continue
            y = (x[1], x[2], x[0])
            check_elevated(x, y, acc)
    elif desc['what'] == 'arcs':
        for i, g in enumerate(arc_grid(tier)):
            if i % 8 != desc['k']:
                continue
            spec = arc_from_center(*g)
            check_arc(spec, {'what': 'arc', 'grid': list(g)}, acc)
    elif desc['what'] == 'lattice':
        k = 0
        for n in (3, 4):
            for idx in itertools.product(range(len(LATTICE_T)), repeat=n):
                k += 1
                if k % desc['part'][1] == desc['part'][0]:
                    check_lattice_bezier(idx, acc)
    elif desc['what'] == 'int_beziers':
        for n in INT_SHAPES:
            check_int_bezier(n, acc)
    elif desc['what'] == 'negative_radius_arcs':
        # radii may be given with either sign (only their magnitudes matter): each sign pattern, rotated and not
        for rx, ry in ((-60.0, 25.0), (60.0, -25.0), (-60.0, -25.0), (60.0, 25.0), (-3.0, 1.0)):
            for rot in (30.0, 0.0, 90.0, -45.0, 123.4):
                for la, sw in ((0, 0), (0, 1), (1, 0), (1, 1)):
                    check_arc((0j, complex(rx, ry), rot, la, sw, 40 + 30j), {'what': 'negarc', 'radius': [rx, ry], 'rot': rot, 'flags': [la, sw]}, acc)
    elif desc['what'] == 'strict_small':
        check_strict_small(acc)
    elif desc['what'] == 'libarcs':
        for n in AB.ARCS:
            for rot in ROTS:
                seg = AB.make(n, rot=rot)
                spec = (seg.start, complex(*[abs(v) for v in (AB.ARCS[n][1].real, AB.ARCS[n][1].imag)]), seg.rotation,
                        seg.large_arc, seg.sweep, seg.end)
                check_arc(spec, {'what': 'libarc', 'shape': n, 'rot': rot}, acc, seg=seg if core.CONTEXT.get('prov') else None)
                # pieces of the arc (cropped / split hand out new Arc objects with derived parameters)
                check_pieces(seg, {'what': 'libarc', 'shape': n, 'rot': rot}, acc)
    elif desc['what'] == 'long':
        from mc import longpaths as LP
        for n in (LP.SIZES_QUICK if tier == 'quick' else LP.SIZES_THOROUGH):
            for v in LONG_VARIANTS:
                check_long(n, desc['kinds'], v, acc)
    else:
        for w in PATHS:
            check_path(w, acc)
    return acc


def expected_classes(tier):
    return ['C/regular/interior_extremum', 'C/denom_zero/interior_extremum', 'C/regular/endpoints_only',
            'Q/regular/interior_extremum', 'L/regular/endpoints_only', 'elevated/denom_tiny/interior_extremum',
            'elevated/denom_zero/interior_extremum', 'A/crit0/rotated', 'A/crit1/rotated', 'A/crit2/rotated',
            'A/crit3/rotated', 'A/crit4/rotated', 'A/crit4/axis_aligned', 'path', 'long/ge128', 'long/lt128', 'int_control_points/C', 'int_control_points/Q']


def space(tier, seed):
    return {'bezier_shapes': list(AB.LINES) + list(AB.QUADS) + list(AB.CUBICS), 'rotations': ROTS, 'scales': SCALES,
            'elevated_quadratics': len(list(elevated_family(tier))), 'arc_grid': len(list(arc_grid(tier))),
            'library_arcs': list(AB.ARCS), 'paths': PATHS,
            'long_paths': {'sizes': 'mc.longpaths.SIZES_* (powers of two up to 256 / 512 and neighbours)', 'kinds': ['L', 'LQC', 'C'], 'variants': LONG_VARIANTS}}


def replay(case):
    acc = core.ReplayAcc()
    w = case['what']
    if w == 'lattice_bezier':
        check_lattice_bezier(tuple(case['idx']), acc)
    elif w == 'int_bezier':
        check_int_bezier(case['shape'], acc)
    elif w == 'negarc':
        check_arc((0j, complex(*case['radius']), case['rot'], case['flags'][0], case['flags'][1], 40 + 30j), case, acc)
    elif w == 'long':
        check_long(case['n'], case['kinds'], case['variant'], acc)
    elif w == 'strict_small':
        check_strict_small(acc, only={k: v for k, v in case.items() if k not in ('piece',)})
    elif w == 'bezier' and 'piece' in case:
        check_pieces(AB.make(case['shape'], case['scale'], rot=case['rot']), {k: v for k, v in case.items() if k != 'piece'}, acc, only=case['piece'])
    elif w == 'bezier':
        check_bezier(case['shape'], case['rot'], case['scale'], acc, shift=complex(*case.get('shift', [0, 0])))
    elif w == 'elevated':
        check_elevated(tuple(case['x']), tuple(case['y']), acc)
    elif w == 'arc':
        check_arc(arc_from_center(*case['grid']), case, acc)
    elif w == 'libarc' and 'piece' in case:
        check_pieces(AB.make(case['shape'], rot=case['rot']), {k: v for k, v in case.items() if k != 'piece'}, acc, only=case['piece'])
    elif w == 'libarc':
        seg = AB.make(case['shape'], rot=case['rot'])
        n = case['shape']
        spec = (seg.start, complex(abs(AB.ARCS[n][1].real), abs(AB.ARCS[n][1].imag)), seg.rotation, seg.large_arc, seg.sweep, seg.end)
        check_arc(spec, case, acc, seg=seg if core.CONTEXT.get('prov') else None)
    else:
        check_path(tuple(case['word']), acc)
    return acc.vlist
