"""C15  unit_tangent, normal and curvature are the differential geometry of the curve.

Product mode: segment library (rotations) x t alphabet; Bezier segments whose
first / last control points coincide oriented into 8 headings, given as Python
complex and as the numpy scalars the library's own rotated() produces;
similarity transforms (translate, rotate, scale, reverse).  Oracle: exact
derivatives over Q of the float control points; where the first derivative
vanishes at an end point, the direction of the first non-vanishing higher
derivative with the sign of the approach from inside [0,1].
"""
import itertools
import math
import cmath
import warnings

import numpy as np

from mc import core
from mc import alphabets as AB
from mc.exact import GQ, F, bernstein_eval
from mc.enc import outcome, seg_size
from mc.props.c03 import ref_derivative

from svgpathtools import Line, QuadraticBezier, CubicBezier, Arc, Path

ID = 'C15'
LEVEL = 'exploration'
RULE = ('segment library x rotations x t alphabet; coincident-control Beziers x 8 headings x {start,end} x {python complex, '
        'numpy complex}; similarity transforms; one case per (segment, t, quantity); non-trivial = curved segment or '
        'vanishing derivative; distinct = distinct tuple')
ASSUMPTIONS = ['exact derivatives of Bezier segments over Q; arcs against the analytic derivative of the stored parameterisation',
               'interior parameters where the derivative vanishes (cusps, fold-backs) are excluded: the one-sided limits differ there',
               'numpy error state must be restored by every call (checked)']

TS = [0.0, 0.25, 1.0 / 3.0, 0.5, 0.7, 1.0]
HEADINGS = [1 + 0j, 1 + 1j, 1j, -1 + 1j, -1 + 0j, -1 - 1j, -1j, 1 - 1j]


def exact_tangent(pts, t):
    """(unit direction of travel at t, order of first non-vanishing derivative) or None when undefined/ambiguous"""
    ex = [GQ.of(complex(p)) for p in pts]
    tq = F(t)
    n = len(pts) - 1
    for k in range(1, n + 1):
        d = ref_derivative(ex, tq, k)
        if d.re != 0 or d.im != 0:
            z = complex(d)
            if k == 1:
                return z / abs(z), 1
            if t == 0:
                return z / abs(z), k                       # B'(tau) ~ B^(k)(0) tau^(k-1)/(k-1)!, tau > 0
            if t == 1:
                return ((-1) ** (k - 1)) * z / abs(z), k   # tau - 1 < 0
            return None, k                                 # interior zero of the speed
    return None, 0


def exact_curvature(pts, t):
    ex = [GQ.of(complex(p)) for p in pts]
    tq = F(t)
    d1 = ref_derivative(ex, tq, 1)
    d2 = ref_derivative(ex, tq, 2) if len(pts) > 2 else GQ(0)
    v2 = d1.re * d1.re + d1.im * d1.im
    if v2 == 0:
        return None
    mag = max(abs(complex(p)) for p in pts)
    if float(v2) <= (1e-9 * mag) ** 2:
        return None        # speed zero up to rounding: not a regular point
    cr = abs(d1.re * d2.im - d1.im * d2.re)
    return float(cr) / float(v2) ** 1.5


def errstate_ok():
    e = np.geterr()
    return e == {'divide': 'warn', 'over': 'warn', 'under': 'ignore', 'invalid': 'warn'}


def check_tangent_at(seg, t, case, acc, sig):
    kind = type(seg).__name__[0]
    if kind == 'A':
        k = math.radians(seg.delta)
        ang = math.radians(seg.theta + t * seg.delta) + math.pi / 2
        phi = math.radians(seg.rotation)
        x, y = seg.radius.real * math.cos(ang), seg.radius.imag * math.sin(ang)
        d = k * complex(math.cos(phi) * x - math.sin(phi) * y, math.sin(phi) * x + math.cos(phi) * y)
        want, order = d / abs(d), 1
    else:
        want, order = exact_tangent(list(seg.bpoints()), t)
        if want is not None and order == 1 and 0 < t < 1:
            # an interior point where the speed is zero up to rounding (a rotated cusp): the
            # direction of a 1e-16 vector is noise, and the one-sided limits differ
            pts = [complex(p) for p in seg.bpoints()]
            n = len(pts) - 1
            d = [n * (pts[i + 1] - pts[i]) for i in range(n)]
            from mc.refgeom import de_casteljau
            if abs(de_casteljau(d, t)) <= 1e-9 * max(abs(x) for x in d):
                want, order = None, 1
    if want is None:
        acc.filt('interior_zero_of_speed' if order else 'all_derivatives_vanish')
        return None
    with warnings.catch_warnings():
        warnings.simplefilter('ignore')
        r = outcome(lambda: seg.unit_tangent(t))
        rn = outcome(lambda: seg.normal(t))
    cls = 'tangent/%s/%s' % (kind, 'regular' if order == 1 else 'limit_order%d' % order)
    acc.case(case, cls=cls, nontrivial=kind != 'L' or order > 1)
    sg = dict(sig, kind=kind, order=order)
    if not errstate_ok():
        np.seterr(divide='warn', over='warn', under='ignore', invalid='warn')
        acc.violation('numpy_error_state_not_restored', sg, case)
    if r[0] != 'ok':
        acc.violation('unit_tangent_raises', dict(sg, exc=r[1]), case, observed=r, expected=want)
        return None
    try:
        u = complex(r[1])
    except Exception:
        acc.violation('unit_tangent_not_a_number', sg, case, observed=repr(r[1]))
        return None
    if not (abs(u) == abs(u)) or abs(abs(u) - 1) > 1e-9:
        acc.violation('unit_tangent_not_unit', sg, case, observed=u, expected=want)
        return None
    tol = 1e-6 if order > 1 else 1e-9
    if kind == 'A':
        tol = 1e-7
    if abs(u - want) > tol:
        what = 'opposite_direction' if abs(u + want) <= tol else 'wrong_direction'
        acc.violation('unit_tangent_' + what, sg, case, observed=u, expected=want)
        return None
    if rn[0] != 'ok' or abs(complex(rn[1]) - (-1j) * u) > 1e-12:
        acc.violation('normal_not_minus_i_tangent', sg, case, observed=rn, expected=-1j * u)
    return u


TS_T = sorted(set(TS + [i / 32.0 for i in range(33)] + [1e-9, 1 - 1e-9, 2.0 ** -52, 1 - 2.0 ** -53]))
LATTICE = [0j, 1 + 0j, 1j, 1 + 1j, 2 + 0.5j, -0.3 + 0.7j, 2.5e3 + 1e3j]


def check_segment(name, rot, acc, scale=1.0, ts=TS, lattice=None, shift=0j):
    if lattice is not None:
        pts = [LATTICE[i] for i in lattice]
        if all(q == pts[0] for q in pts):
            return
        seg = {2: Line, 3: QuadraticBezier, 4: CubicBezier}[len(pts)](*pts)
    else:
        seg = AB.make(name, scale, rot=rot, shift=shift)
    kind = type(seg).__name__[0]
    size = seg_size(seg)
    for t in ts:
        case = {'what': 'segment', 'shape': name, 'rot': rot, 't': t, 'scale': scale}
        if shift:
            case['shift'] = core.jz(shift)
        if lattice is not None:
            case = {'what': 'lattice', 'idx': list(lattice), 't': t}
        if kind == 'L' and seg.start == seg.end:
            continue
        u = check_tangent_at(seg, t, case, acc, {'input': 'python'})
        # curvature
        if kind == 'A':
            # an ellipse at eccentric angle th (the arc's own stored parameterisation; C04 decides that one):
            # kappa = rx ry / (rx^2 sin^2 th + ry^2 cos^2 th)^(3/2); 1/r on a circle
            rx_, ry_ = seg.radius.real, seg.radius.imag
            th_ = math.radians(seg.theta + t * seg.delta)
            want = rx_ * ry_ / ((rx_ * math.sin(th_)) ** 2 + (ry_ * math.cos(th_)) ** 2) ** 1.5
            if rx_ == ry_:
                want = 1.0 / rx_
        elif kind == 'L':
            want = 0.0
        else:
            want = exact_curvature(list(seg.bpoints()), t)
        if want is None:
            continue
        cond = 0.0
        if kind in 'QC':
            # conditioning of |B' x B''| / |B'|^3 in floating point: the cross product carries an absolute
            # rounding error ~ eps*max|B'|*max|B''|, divided by speed^3 (only matters next to a zero of the speed)
            bp = [complex(q) for q in seg.bpoints()]
            n_ = len(bp) - 1
            d1 = [n_ * (bp[i + 1] - bp[i]) for i in range(n_)]
            d2 = [(n_ - 1) * (d1[i + 1] - d1[i]) for i in range(n_ - 1)]
            from mc.refgeom import de_casteljau
            sp = abs(de_casteljau(d1, t))
            cond = 64 * 2.0 ** -52 * max(abs(x) for x in d1) * max(abs(x) for x in d2) / sp ** 3 if sp > 0 else float('inf')
        with warnings.catch_warnings():
            warnings.simplefilter('ignore')
            r = outcome(lambda: seg.curvature(t))
        acc.case(dict(case, q='curvature'), cls='curvature/%s' % kind, nontrivial=kind != 'L')
        if not errstate_ok():
            np.seterr(divide='warn', over='warn', under='ignore', invalid='warn')
            acc.violation('numpy_error_state_not_restored', {'kind': kind, 'fn': 'curvature'}, case)
        # relative tolerance: curvature scales like 1/size, so it is tiny for huge curves and huge for tiny ones
        if r[0] != 'ok' or not abs(float(r[1]) - want) <= 1e-7 * want + 1e-8 / size + cond:
            acc.violation('curvature_wrong', {'kind': kind, 'scale': 'unit' if scale == 1.0 else ('tiny' if scale < 1 else 'huge')},
                          dict(case, q='curvature'), observed=r, expected=want)


def coincident_shapes():
    """(name, builder(heading) -> python-complex control points, t where the derivative vanishes)"""
    out = []
    out.append(('C_c1_eq_start', lambda h: (0.5 + 0.25j, 0.5 + 0.25j, 0.5 + 0.25j + 2 * h, 0.5 + 0.25j + 3 * h + 1j * h), 0.0))
    out.append(('C_c2_eq_end', lambda h: (0.5 + 0.25j - 3 * h + 1j * h, 0.5 + 0.25j - 2 * h, 0.5 + 0.25j, 0.5 + 0.25j), 1.0))
    out.append(('Q_c_eq_start', lambda h: (1.5 - 0.5j, 1.5 - 0.5j, 1.5 - 0.5j + 3 * h), 0.0))
    out.append(('Q_c_eq_end', lambda h: (1.5 - 0.5j - 3 * h, 1.5 - 0.5j, 1.5 - 0.5j), 1.0))
    out.append(('C_c1c2_eq_start', lambda h: (0.5 + 0.25j, 0.5 + 0.25j, 0.5 + 0.25j, 0.5 + 0.25j + 3 * h), 0.0))
    out.append(('C_c1c2_eq_end', lambda h: (0.5 + 0.25j - 3 * h, 0.5 + 0.25j, 0.5 + 0.25j, 0.5 + 0.25j), 1.0))
    return out


def check_coincident(name, hi, inp, acc):
    builder, t0 = {n: (b, t) for n, b, t in coincident_shapes()}[name]
    h = HEADINGS[hi]
    pts = builder(h)
    cls = QuadraticBezier if len(pts) == 3 else CubicBezier
    seg = cls(*pts)
    if inp == 'numpy':
        pts = tuple(np.complex128(p) for p in pts)
        seg = cls(*pts)
    elif inp == 'rotated':
        seg = seg.rotated(30, origin=0j)          # the library's own transform: numpy complex scalars
    for t in (t0, 1.0 - t0, 0.5):
        case = {'what': 'coincident', 'shape': name, 'heading': hi, 'input': inp, 't': t}
        check_tangent_at(seg, t, case, acc, {'input': inp, 'at': 'vanishing' if t == t0 else 'regular'})
    # curvature at the end where the derivative vanishes must be finite or inf, never raise / nan
    with warnings.catch_warnings():
        warnings.simplefilter('ignore')
        r = outcome(lambda: seg.curvature(t0))
    if not errstate_ok():
        np.seterr(divide='warn', over='warn', under='ignore', invalid='warn')
        acc.violation('numpy_error_state_not_restored', {'fn': 'curvature', 'input': inp}, {'what': 'coincident', 'shape': name, 'heading': hi, 'input': inp, 't': t0})


COINCIDENT_TRANSFORMS = [
    ('scaled2', lambda s: s.scaled(2.0), lambda d: d),
    ('scaled1.1', lambda s: s.scaled(1.1), lambda d: d),
    ('scaled_seventh_about', lambda s: s.scaled(1 / 7.0, origin=0.3 - 0.7j), lambda d: d),
    ('scaled_neg', lambda s: s.scaled(-1.5), lambda d: -d),
    ('scaled_nonuniform', lambda s: s.scaled(2.0, 0.5), lambda d: complex(2.0 * d.real, 0.5 * d.imag)),
    ('translated', lambda s: s.translated(0.1 + 0.2j), lambda d: d),
    ('rotated_about', lambda s: s.rotated(40, origin=1.1 - 0.3j), lambda d: d * cmath.exp(1j * math.radians(40))),
    ('path_scaled1.1', lambda s: Path(s).scaled(1.1)[0], lambda d: d),
    ('path_scaled_third_about', lambda s: Path(s).scaled(1 / 3.0, origin=2 + 1j)[0], lambda d: d),
    ('reversed_scaled1.1', lambda s: s.reversed().scaled(1.1), None),
    ('identity', lambda s: s, lambda d: d),
    # in the middle of a path (exact joints on both sides): re-joining the joints after the transform must not
    # separate a control point from the end point it coincides with
    ('midpath_scaled1.1', lambda s: _mid(s).scaled(1.1)[1], lambda d: d),
    ('midpath_scaled_seventh_about', lambda s: _mid(s).scaled(1 / 7.0, origin=0.3 - 0.7j)[1], lambda d: d),
    ('midpath_rotated', lambda s: _mid(s).rotated(40, origin=1.1 - 0.3j)[1], lambda d: d * cmath.exp(1j * math.radians(40))),
    ('midpath_translated', lambda s: _mid(s).translated(0.1 + 0.2j)[1], lambda d: d),
    ('midpath_closed_scaled1.1', lambda s: _mid(s, close=True).scaled(1.1)[1], lambda d: d),
    # neighbours of ANOTHER type (arcs are transformed by their own branch of each transform; the joints are re-joined afterwards)
    ('midarcs_rotated', lambda s: _mid(s, arcs=True).rotated(40, origin=1.1 - 0.3j)[1], lambda d: d * cmath.exp(1j * math.radians(40))),
    ('midarcs_rotated_default', lambda s: _mid(s, arcs=True).rotated(-75)[1], lambda d: d * cmath.exp(1j * math.radians(-75))),
    ('midarcs_scaled1.1', lambda s: _mid(s, arcs=True).scaled(1.1)[1], lambda d: d),
    ('midarcs_translated', lambda s: _mid(s, arcs=True).translated(0.1 + 0.2j)[1], lambda d: d),
    ('midarcs_reversed_rotated', lambda s: _mid(s, arcs=True).reversed().rotated(40, origin=0j)[1], None),
]


def _mid(s, close=False, arcs=False):
    a = Line(s.start - (1.3 + 2.1j), s.start)
    b = Line(s.end, s.end + (2.3 - 1.7j))
    if arcs:
        a = Arc(s.start - (1.3 + 2.1j), 2 + 1.5j, 15, 0, 1, s.start)
        b = Arc(s.end, 1.7 + 2.2j, -20, 0, 0, s.end + (2.3 - 1.7j))
    segs = [a, s, b]
    if close:
        segs.append(Line(b.end, a.start))
    return Path(*segs)


def check_coincident_transformed(name, hi, acc, only=None):
    """segments whose first / last control points coincide, with NON-DYADIC coordinates, through the
    library's own transforms: the tangent at the end where the derivative vanishes must be the image of the
    original's (a transform that recomputes control points separately can split the coincident pair by an
    ulp, after which the 'derivative' there is rounding noise)"""
    builder, t0 = {n: (b, t) for n, b, t in coincident_shapes()}[name]
    h = HEADINGS[hi]
    base = builder(h)
    # an affine image with non-dyadic entries; coincident control points stay bitwise equal (same arithmetic)
    pts = tuple((p * (1.3 + 0.1j)) + (0.1 + 0.3j) for p in base)
    cls = QuadraticBezier if len(pts) == 3 else CubicBezier
    seg = cls(*pts)
    want0, order = exact_tangent(list(seg.bpoints()), t0)
    if want0 is None:
        acc.filt('coincident_transformed_no_reference')
        return
    for tname, f, fd in COINCIDENT_TRANSFORMS:
        if only and tname != only:
            continue
        case = {'what': 'coincident_transformed', 'shape': name, 'heading': hi, 'transform': tname}
        tt = t0
        if fd is None:
            tt = 1.0 - t0
            want = -want0
            if 'rotated' in tname:
                want = want * cmath.exp(1j * math.radians(40))
        else:
            w = fd(want0)
            want = w / abs(w)
        with warnings.catch_warnings():
            warnings.simplefilter('ignore')
            r = outcome(lambda: complex(f(seg).unit_tangent(tt)))
        acc.case(case, cls='coincident_transformed/%s' % tname.split('_')[0])
        if r[0] != 'ok' or not abs(r[1] - want) <= 1e-6:
            acc.violation('tangent_at_vanishing_end_not_covariant', {'kind': 'Q' if len(pts) == 3 else 'C', 'transform': tname.split('1')[0].split('2')[0].rstrip('_'),
                                                                      'end': 'start' if t0 == 0 else 'end'},
                          case, observed=r, expected=want)


def check_transforms(name, acc, shift=0j, warm=False):
    """shift: the same shape far from the origin (a handle of length ~1 is then tiny RELATIVE to the
    coordinates).  warm: the source segment has answered other queries (length, bbox, poly, derivative)
    before the transformed copy is made - copies must not inherit anything that is stale for them."""
    seg = AB.make(name, shift=shift)
    kind = type(seg).__name__[0]
    if warm:
        with warnings.catch_warnings():
            warnings.simplefilter('ignore')
            for q in (lambda: seg.length(), lambda: seg.bbox(), lambda: seg.poly(), lambda: seg.derivative(0.3),
                      lambda: seg.unit_tangent(0.3), lambda: seg.curvature(0.3), lambda: seg.length(0.1, 0.6)):
                outcome(q)
    far = abs(shift) > 0
    for t in (0.0, 0.25, 0.5, 0.7, 1.0):
        with warnings.catch_warnings():
            warnings.simplefilter('ignore')
            base = outcome(lambda: (complex(seg.unit_tangent(t)), float(seg.curvature(t))))
        if base[0] != 'ok' or not (base[1][0] == base[1][0]):
            continue
        if kind != 'A' and exact_tangent(list(seg.bpoints()), t)[0] is None:
            continue        # interior zero of the speed: one-sided limits differ
        u0, k0 = base[1]
        if not math.isfinite(k0):
            continue
        tr = [('translate', lambda s: s.translated(3 - 2j), lambda u: u, lambda k: k, t),
              ('scale2', lambda s: s.scaled(2.0), lambda u: u, lambda k: k / 2.0, t),
              ('scale_half', lambda s: s.scaled(0.5), lambda u: u, lambda k: k * 2.0, t),
              ('reversed', lambda s: s.reversed(), lambda u: -u, lambda k: k, 1 - t)] if far else \
             [('translate', lambda s: s.translated(3 - 2j), lambda u: u, lambda k: k, t),
              ('rotate30', lambda s: s.rotated(30, origin=0j), lambda u: u * cmath.exp(1j * math.radians(30)), lambda k: k, t),
              ('rotate200', lambda s: s.rotated(200, origin=1 + 1j), lambda u: u * cmath.exp(1j * math.radians(200)), lambda k: k, t),
              ('scale2', lambda s: s.scaled(2.0), lambda u: u, lambda k: k / 2.0, t),
              ('scale_half', lambda s: s.scaled(0.5), lambda u: u, lambda k: k * 2.0, t),
              ('reversed', lambda s: s.reversed(), lambda u: -u, lambda k: k, 1 - t)]
        for tname, f, fu, fk, tt in tr:
            case = {'what': 'transform', 'shape': name, 't': t, 'transform': tname}
            if far or warm:
                case.update(shift=core.jz(shift), warm=warm)
            with warnings.catch_warnings():
                warnings.simplefilter('ignore')
                r = outcome(lambda: (complex(f(seg).unit_tangent(tt)), float(f(seg).curvature(tt))))
            acc.case(case, cls='transform/%s' % tname, nontrivial=kind != 'L')
            tol = 1e-6 if kind == 'A' else 1e-9
            if far:
                tol = 1e-6       # control-point differences of a curve 4e5 away carry ~1e-10 relative rounding
            if r[0] != 'ok' or abs(r[1][0] - fu(u0)) > tol or abs(r[1][1] - fk(k0)) > (1e-4 if far else 1e-6) * max(1.0, abs(fk(k0))):
                acc.violation('not_covariant', {'kind': kind, 'transform': tname, 'far': far, 'warm': warm}, case, observed=r, expected=[fu(u0), fk(k0)])


def path_checks(acc):
    from mc.props.c09 import chain
    segs = chain(('L_diagonal', 'Q_generic', 'C_arch', 'A_ellipse_3to1'))
    p = AB.derive_path(Path(*segs))
    for T in (0.1, 0.3, 0.55, 0.8, 0.95):
        k, t = p.T2t(T)
        case = {'what': 'path', 'T': T}
        with warnings.catch_warnings():
            warnings.simplefilter('ignore')
            r = outcome(lambda: (complex(p.unit_tangent(T)), complex(p.normal(T)), float(p.curvature(T))))
            w = outcome(lambda: (complex(segs[k].unit_tangent(t)), float(segs[k].curvature(t))))
        acc.case(case, cls='path')
        if r[0] != 'ok' or w[0] != 'ok' or abs(r[1][0] - w[1][0]) > 1e-9 or abs(r[1][1] + 1j * w[1][0]) > 1e-9 or \
                abs(r[1][2] - w[1][1]) > 1e-6 * max(1.0, w[1][1]):
            acc.violation('path_differs_from_segment', {}, case, observed=r, expected=w)


def smooth_joint_paths():
    """continuous paths whose joints are smooth (same unit tangent on both sides) or kinked"""
    k = 0.5522847498307936
    circle = [CubicBezier(1 + 0j, 1 + k * 1j, k + 1j, 1j), CubicBezier(1j, -k + 1j, -1 + k * 1j, -1 + 0j),
              CubicBezier(-1 + 0j, -1 - k * 1j, -k - 1j, -1j), CubicBezier(-1j, k - 1j, 1 - k * 1j, 1 + 0j)]
    arcs = [Arc(2 + 0j, 2 + 2j, 0, 0, 1, 2j), Arc(2j, 2 + 2j, 0, 0, 1, -2 + 0j), Arc(-2 + 0j, 2 + 2j, 0, 0, 1, -2j)]
    line_curve = [Line(0j, 2 + 0j), CubicBezier(2 + 0j, 3 + 0j, 4 + 1j, 4 + 2j), Line(4 + 2j, 4 + 5j)]
    kinked = [Line(0j, 2 + 0j), Line(2 + 0j, 2 + 2j), QuadraticBezier(2 + 2j, 1 + 3j, 3j)]
    two = [Line(0j, 2 + 0j), CubicBezier(2 + 0j, 3 + 0j, 4 + 1j, 4 + 2j), Line(9 + 9j, 12 + 5j), QuadraticBezier(12 + 5j, 13 + 7j, 15 + 6j)]
    return {'circle_4_cubics': (circle, True), 'arc_chain': (arcs, False), 'line_cubic_line': (line_curve, False),
            'kinked': (kinked, False), 'two_subpaths': (two, False)}


def joint_checks(acc):
    for name, (segs, closed) in smooth_joint_paths().items():
        p = AB.derive_path(Path(*segs))
        n = len(segs)
        ls = [s.length() for s in segs]
        tot = sum(ls)
        bounds = []
        accum = 0.0
        for l in ls[:-1]:
            accum += l / tot
            bounds.append(accum)
        # (where two consecutive segments do not meet there is no joint: a parameter there belongs to two points)
        Ts = [(0.0, 0, 0.0), (1.0, n - 1, 1.0)] + [(b, None, None) for i_, b in enumerate(bounds) if segs[i_].end == segs[i_ + 1].start]
        for T, k_, t_ in Ts:
            case = {'what': 'joint', 'path': name, 'T': T}
            if k_ is None:
                k_, t_ = p.T2t(T)
            seg = segs[k_]
            # the joint this parameter sits on, and whether it is smooth (independent control-polygon test)
            if t_ > 0.5:
                nxt = segs[(k_ + 1) % n] if (k_ + 1 < n or closed) else None
                a, b = seg, nxt
            else:
                prv = segs[(k_ - 1) % n] if (k_ > 0 or closed) else None
                a, b = prv, seg
            with warnings.catch_warnings():
                warnings.simplefilter('ignore')
                r = outcome(lambda: float(p.curvature(T)))
                w = outcome(lambda: float(seg.curvature(min(max(t_, 0.0), 1.0))))
                ut = outcome(lambda: complex(p.unit_tangent(T)))
                wt = outcome(lambda: complex(seg.unit_tangent(min(max(t_, 0.0), 1.0))))
            if a is None or b is None:
                smooth = True       # a free end of an open path: no joint
            else:
                ua, ub = a.unit_tangent(1), b.unit_tangent(0)
                smooth = abs(ua - ub) < 1e-6
            acc.case(case, cls='path_joint/%s' % ('smooth' if smooth else 'kink'))
            sig = {'at': 'joint', 'smooth': smooth, 'side': 'end_of_segment' if t_ > 0.5 else 'start_of_segment'}
            if ut[0] != 'ok' or wt[0] != 'ok' or abs(ut[1] - wt[1]) > 1e-9:
                acc.violation('path_differs_from_segment', dict(sig, q='unit_tangent'), case, observed=ut, expected=wt)
            if smooth:
                if r[0] != 'ok' or w[0] != 'ok' or not abs(r[1] - w[1]) <= 1e-6 * max(1.0, abs(w[1])):
                    acc.violation('path_differs_from_segment', dict(sig, q='curvature'), case, observed=r, expected=w)
            else:
                if r != ('ok', float('inf')):
                    acc.violation('curvature_at_kink_not_inf', sig, case, observed=r, expected='inf (documented)')


def shards(tier, seed):
    rots = [0, 37] if tier == 'quick' else [0, 37, 90, 180, 211, 300]
    out = [{'what': 'segment', 'shape': n, 'rot': r} for n in list(AB.LINES) + list(AB.QUADS) + list(AB.CUBICS) + list(AB.ARCS) for r in rots]
    out += [{'what': 'segment', 'shape': n, 'rot': 0, 'scale': sc} for n in list(AB.QUADS) + list(AB.CUBICS) + list(AB.ARCS)
            for sc in (1e-6, 1e8, 1e-9, 1e-12)]
    out += [{'what': 'segment', 'shape': n, 'rot': 0, 'scale': 1.0, 'shift': [1.0e6, 1.0e6]} for n in list(AB.QUADS) + list(AB.CUBICS) + list(AB.ARCS)]
    out += [{'what': 'coincident', 'shape': n} for n, _, _ in coincident_shapes()]
    out += [{'what': 'coincident_transformed', 'shape': n} for n, _, _ in coincident_shapes()]
    out += [{'what': 'transform', 'shape': n} for n in list(AB.LINES) + list(AB.QUADS) + list(AB.CUBICS) + list(AB.ARCS)]
    out += [{'what': 'transform', 'shape': n, 'warm': True} for n in list(AB.LINES) + list(AB.QUADS) + list(AB.CUBICS) + list(AB.ARCS)]
    out += [{'what': 'transform', 'shape': n, 'shift': [3.0e5, 2.0e5], 'warm': w} for n in list(AB.QUADS) + list(AB.CUBICS) for w in (False, True)]
    out += AB.provenance_shards(out, tier, lambda d: d['what'] in ('segment', 'transform') and not d.get('shift') and d.get('scale', 1.0) == 1.0)
    # arcs constructed with autoscale_radius=False, plain and under the transforms (both tiers)
    out += [d for d in ({'what': w, 'shape': n, 'prov': 'strict_arc', **({'rot': 0} if w == 'segment' else {})} for n in AB.ARCS for w in ('segment', 'transform'))
            if d not in out]
    out.append({'what': 'path'})
    out.append({'what': 'joints'})
    out += [dict(d, pprov=pv) for d in ({'what': 'path'}, {'what': 'joints'}) for pv in AB.PATH_PROVENANCES]      # cheap: all of them in both tiers
    if tier == 'thorough':
        allshapes = list(AB.LINES) + list(AB.QUADS) + list(AB.CUBICS) + list(AB.ARCS)
        out += [{'what': 'segment', 'shape': n, 'rot': r, 'scale': sc, 'dense': True} for n in allshapes
                for r in (0, 37, 211) for sc in (1.0, 1e-3, 1e3)]
        out += [{'what': 'lattice', 'part': [i, 48]} for i in range(48)]
    return out


def run_shard(desc, tier, seed):
    acc = core.Acc()
    if desc['what'] == 'segment':
        check_segment(desc['shape'], desc['rot'], acc, scale=desc.get('scale', 1.0), ts=TS_T if desc.get('dense') else TS, shift=complex(*desc.get('shift', [0, 0])))
    elif desc['what'] == 'lattice':
        i = 0
        for n in (2, 3, 4):
            for idx in itertools.product(range(len(LATTICE)), repeat=n):
                i += 1
                if i % desc['part'][1] == desc['part'][0]:
                    check_segment(None, 0, acc, ts=TS_T, lattice=idx)
    elif desc['what'] == 'coincident_transformed':
        for hi in range(8):
            check_coincident_transformed(desc['shape'], hi, acc)
    elif desc['what'] == 'coincident':
        for hi in range(8):
            for inp in ('python', 'numpy', 'rotated'):
                check_coincident(desc['shape'], hi, inp, acc)
    elif desc['what'] == 'transform':
        check_transforms(desc['shape'], acc, shift=complex(*desc.get('shift', [0, 0])), warm=desc.get('warm', False))
    elif desc['what'] == 'joints':
        joint_checks(acc)
    else:
        path_checks(acc)
    return acc


def expected_classes(tier):
    return ['tangent/L/regular', 'tangent/Q/regular', 'tangent/C/regular', 'tangent/A/regular', 'tangent/Q/limit_order2',
            'tangent/C/limit_order2', 'tangent/C/limit_order3', 'curvature/Q', 'curvature/C', 'curvature/A', 'curvature/L',
            'transform/reversed', 'transform/rotate30', 'path', 'path_joint/smooth', 'path_joint/kink']


def space(tier, seed):
    return {'shapes': list(AB.LINES) + list(AB.QUADS) + list(AB.CUBICS) + list(AB.ARCS), 't': TS,
            'coincident_control_shapes': [n for n, _, _ in coincident_shapes()], 'headings': [core.jz(h) for h in HEADINGS],
            'inputs': ['python complex', 'numpy.complex128', 'after the library\'s rotated(30)'],
            'thorough_only': {'dense_t_grid': TS_T, 'lattice (every assignment of 2..4 control points over it)': [core.jz(z) for z in LATTICE],
                              'dense segments': 'all shapes x rot {0,37,211} x scale {1,1e-3,1e3}'} if tier == 'thorough' else None,
            'transforms': ['translate', 'rotate30', 'rotate200', 'scale2', 'scale_half', 'reversed']}


def replay(case):
    acc = core.ReplayAcc()
    w = case['what']
    if w == 'segment':
        check_segment(case['shape'], case['rot'], acc, scale=case.get('scale', 1.0), ts=[case['t']], shift=complex(*case.get('shift', [0, 0])))
        acc.vlist = [v for v in acc.vlist if v['case'].get('t') == case['t']]
    elif w == 'lattice':
        check_segment(None, 0, acc, ts=[case['t']], lattice=tuple(case['idx']))
    elif w == 'coincident_transformed':
        check_coincident_transformed(case['shape'], case['heading'], acc, only=case['transform'])
    elif w == 'coincident':
        check_coincident(case['shape'], case['heading'], case['input'], acc)
        acc.vlist = [v for v in acc.vlist if v['case'].get('t') == case['t']]
    elif w == 'transform':
        check_transforms(case['shape'], acc, shift=complex(*case.get('shift', [0, 0])), warm=case.get('warm', False))
        acc.vlist = [v for v in acc.vlist if v['case'].get('t') == case['t'] and v['case'].get('transform') == case['transform']]
    elif w == 'joint':
        joint_checks(acc)
        acc.vlist = [v for v in acc.vlist if v['case'].get('path') == case['path'] and v['case'].get('T') == case['T']]
    else:
        path_checks(acc)
    return acc.vlist
