"""C07  ilength inverts length on [0, L], is monotone, total and terminates.

Product mode: curve library (each segment type, mixed paths) x coordinate
scales 1e-3..1e6 x an s alphabet (0, L, fractions, values next to 0 and L,
path segment boundaries +- 1 ulp, out-of-range values).  Termination is
decided by a budget on the number of length evaluations per call.
"""
import math
import warnings

from mc import core, refgeom
from mc import alphabets as AB
from mc.enc import outcome

import svgpathtools.path as sp
from svgpathtools import Line, QuadraticBezier, CubicBezier, Arc, Path

ID = 'C07'
LEVEL = 'exploration'
RULE = ('curve library x scales x s alphabet; one case per (curve, scale, s); non-trivial = 0 < s < L; '
        'distinct = distinct tuple')
ASSUMPTIONS = ['length() itself is decided by C06; here length(0, ilength(s)) is compared with s',
               'termination = at most %d length evaluations per ilength call (a bisection on doubles needs < 70)' % 400,
               'scipy configuration only']
BUDGET = 400

SHAPES = ['L_diagonal', 'L_nondyadic', 'Q_generic', 'Q_nondyadic', 'Q_foldback_real', 'Q_control_eq_start',
          'C_arch', 'C_sshape', 'C_loop', 'C_cusp', 'C_nondyadic', 'C_c1_eq_start', 'C_monotone', 'C_elevated_line',
          'A_circle_small_ccw', 'A_ellipse_rot30', 'A_eccentric_100to1', 'A_too_small', 'A_rot400']
PATHS = [('L_diagonal', 'C_arch'), ('Q_generic', 'A_ellipse_3to1', 'L_vertical'), ('C_sshape', 'C_loop'),
         ('A_circle_small_ccw', 'A_circle_large_cw'), ('L_horizontal', 'L_diagonal', 'L_shallow'),
         ('DUP', 'C_arch'), ('DUP', 'L_diagonal', 'Q_generic')]


class Over(Exception):
    pass


def make_curve(desc, scale, rot=0):
    if isinstance(desc, str):
        return AB.make(desc, scale, rot=rot)
    if desc[0] == 'DUP':
        # an outline traced forth, back and forth again: later segments are EQUAL (by value) to earlier ones
        chainsegs = []
        for n in desc[1:]:
            sg = AB.make(n, scale, rot=rot)
            if chainsegs:
                sg = AB.make(n, scale, rot=rot, shift=chainsegs[-1].end - sg.start)
                sg.start = chainsegs[-1].end
            chainsegs.append(sg)
        back = [x.reversed() for x in reversed(chainsegs)]
        again = [type(x)(*x.bpoints()) for x in chainsegs]
        return AB.derive_path(Path(*(chainsegs + back + again)))
    segs = []
    pen = None
    for n in desc:
        s = AB.make(n, scale, rot=rot)
        if pen is not None:
            s = AB.make(n, scale, shift=pen - s.start, rot=rot)
            # make the joint exact
            s.start = pen
            if isinstance(s, Arc):
                s = Arc(pen, s.radius, s.rotation, s.large_arc, s.sweep, s.end)
        segs.append(s)
        pen = s.end
    return AB.derive_path(Path(*segs))


DENSE = False


def s_alphabet(curve, L):
    vals = [L * k / 32.0 for k in range(33)] if DENSE else []
    vals += [0.0, L, L * 2.0 ** -30, L / 7, L / 3, L / 2, 0.9 * L, L * (1 - 2.0 ** -52), L * (1 - 1e-9),
            math.nextafter(0.0, 1.0), L * 1e-9]
    if isinstance(curve, Path):
        acc = 0.0
        for seg in curve[:-1]:
            acc += seg.length()
            vals += [acc, math.nextafter(acc, 0.0), math.nextafter(acc, math.inf)]
    return sorted(set(v for v in vals if 0 <= v <= L))


def out_of_range(L):
    return [-L / 10, -math.nextafter(0.0, 1.0), L * (1 + 1e-9), 2 * L, float('inf'), float('-inf'), float('nan')]


def path_length_upto(p, T):
    """arc length of the path from 0 to T by the definition of T (cumulative arc-length fractions of the segments),
    from the segments' own lengths - not through Path.T2t / Path.length"""
    ls = [g.length() for g in p]
    tot = sum(ls)
    if tot == 0:
        return 0.0
    acc_ = 0.0
    for g, l in zip(p, ls):
        f = l / tot
        if l > 0 and T <= (acc_ + l) / tot or g is p[-1]:
            u = (T - acc_ / tot) / f if f > 0 else 0.0
            return acc_ + g.length(0, min(max(u, 0.0), 1.0))
        acc_ += l
    return tot


def check_curve(desc, scale, acc, only_s=None, rot=0):
    curve = make_curve(desc, scale, rot)
    kind = 'P' if isinstance(curve, Path) else type(curve).__name__[0]
    # the reference lengths come from a copy built from the public attributes (nothing an earlier call left behind)
    ref = Path(*[AB.fresh_copy(g) for g in curve]) if isinstance(curve, Path) else AB.fresh_copy(curve)
    L = ref.length()
    segs = list(curve) if isinstance(curve, Path) else [curve]
    speed_zero = any(not isinstance(g, (Arc, Line)) and
                     (refgeom.speed_zero_in(list(g.bpoints()), 0, 1) or refgeom.near_speed_zero(list(g.bpoints()), 0, 1))
                     for g in segs)
    counter = {'n': 0}
    classes = [Line, QuadraticBezier, CubicBezier, Arc]
    origs = {c: c.length for c in classes}

    def wrap(c):
        o = origs[c]

        def length(self, *a, **k):
            counter['n'] += 1
            if counter['n'] > BUDGET:
                raise Over()
            return o(self, *a, **k)
        return length
    name = desc if isinstance(desc, str) else '+'.join(desc)
    results = []
    try:
        for c in classes:
            c.length = wrap(c)
        for s in (s_alphabet(curve, L) if only_s is None else only_s):
            if not 0 <= s <= L:
                continue
            case = {'curve': desc, 'scale': scale, 's': s, 'rot': rot}
            counter['n'] = 0
            where = 's=0' if s == 0 else 's=L' if s == L else 'interior'
            acc.case(case, cls='%s/%s' % (kind, where), nontrivial=0 < s < L)
            with warnings.catch_warnings():
                warnings.simplefilter('ignore')
                try:
                    r = outcome(lambda: curve.ilength(s))
                except Over:
                    r = ('exc', 'LengthEvaluationBudgetExceeded')
            sig = {'kind': kind, 'where': where, 'scale': 'le1' if scale <= 1 else ('1e3' if scale <= 1e3 else 'ge1e4')}
            if r[0] != 'ok':
                acc.violation('ilength_raises_or_does_not_terminate', dict(sig, exc=r[1]), case, observed=r,
                              detail='length evaluations so far: %d' % counter['n'])
                continue
            t = r[1]
            if not (isinstance(t, (int, float)) or hasattr(t, 'real')) or not 0 <= t <= 1:
                acc.violation('result_out_of_range', sig, case, observed=t)
                continue
            t = float(t)
            if s == 0 and t != 0:
                acc.violation('ilength_0_not_0', sig, case, observed=t)
            if s == L and t != 1:
                acc.violation('ilength_L_not_1', sig, case, observed=t)
            counter['n'] = -10 ** 9
            if not isinstance(curve, Path):
                st = ref.length(0, t)
            elif t == 0:
                st = 0.0
            else:
                # arc length up to T through the path's own T2t (C05 decides that map); the segment
                # parameter is clamped because T2t may return 1 + eps/fraction at a boundary
                st = path_length_upto(ref, t)
            tol = max(1e-12, 4096 * math.ulp(L))
            if speed_zero:
                # C06 only promises 5e-3 relative for length() across a point of zero speed (the
                # integrand has a kink there); ilength cannot invert better than length is computed
                tol = max(tol, 5e-3 * L)
            if isinstance(curve, Path):
                tol *= 4      # Path.length(0,T) goes through T2t: adds eps/fraction conditioning
            if not abs(st - s) <= tol:
                acc.violation('does_not_invert_length', sig, case, observed={'t': t, 'length(0,t)': st}, expected=s,
                              detail='tolerance %g, L=%r' % (tol, L))
            results.append((s, t))
        if only_s is None:
            for (s1, t1), (s2, t2) in zip(results, results[1:]):
                if t2 < t1 - 1e-9:
                    acc.violation('not_monotone', {'kind': kind}, {'curve': desc, 'scale': scale, 's': s1, 's2': s2, 'rot': rot},
                                  observed=[t1, t2])
            for s in out_of_range(L):
                counter['n'] = 0
                acc.case({'curve': desc, 'scale': scale, 's': s}, cls='%s/out_of_range' % kind, nontrivial=False)
                try:
                    r = outcome(lambda: curve.ilength(s))
                except Over:
                    r = ('exc', 'LengthEvaluationBudgetExceeded')
                if r != ('exc', 'ValueError'):
                    acc.violation('out_of_range_not_ValueError', {'kind': kind, 'side': 'nan' if s != s else ('below' if s < 0 else 'above')},
                                  {'curve': desc, 'scale': scale, 's': s, 'oor': True, 'rot': rot}, observed=r, expected='ValueError')
    finally:
        for c in classes:
            c.length = origs[c]


def check_call_sequences(desc, scale, acc, only=None):
    """every ordered pair of calls (s_a, s_tol_a) then (s_b, s_tol_b) on ONE object: the second answer must
    meet its own tolerance whatever was asked before (anything remembered between calls must not be
    trusted beyond the tolerance it was computed with)"""
    probe = make_curve(desc, scale)
    L = probe.length()
    kind = 'P' if isinstance(probe, Path) else type(probe).__name__[0]
    segs = list(probe) if isinstance(probe, Path) else [probe]
    if any(not isinstance(g, (Arc, Line)) and (refgeom.speed_zero_in(list(g.bpoints()), 0, 1) or
                                               refgeom.near_speed_zero(list(g.bpoints()), 0, 1)) for g in segs):
        acc.filt('call_sequences_skip_speed_zero')
        return
    calls = [(f * L, tol) for f in (1 / 3.0, 1 / 3.0 + 1e-4, 0.5, 0.9) for tol in (None, 1e-2 * L, 1e-6 * L)]
    for ia, a in enumerate(calls):
        for ib, b in enumerate(calls):
            if only is not None and (ia, ib) != tuple(only):
                continue
            curve = make_curve(desc, scale)
            case = {'curve': desc, 'scale': scale, 'sequence': [ia, ib]}
            acc.case(case, cls='%s/call_sequence' % kind)
            with warnings.catch_warnings():
                warnings.simplefilter('ignore')
                outcome(lambda: curve.ilength(a[0]) if a[1] is None else curve.ilength(a[0], s_tol=a[1]))
                r = outcome(lambda: curve.ilength(b[0]) if b[1] is None else curve.ilength(b[0], s_tol=b[1]))
            sig = {'kind': kind, 'first_tol': 'default' if a[1] is None else 'coarse', 'second_tol': 'default' if b[1] is None else 'coarse'}
            if r[0] != 'ok' or not 0 <= float(r[1]) <= 1:
                acc.violation('ilength_raises_or_does_not_terminate', dict(sig, exc=r[1] if r[0] != 'ok' else 'out_of_range'), case, observed=r)
                continue
            t = float(r[1])
            fresh = make_curve(desc, scale)
            if not isinstance(fresh, Path):
                st = fresh.length(0, t)
            else:
                st = path_length_upto(fresh, t)
            tol = (b[1] or 0.0) + max(1e-12, 4096 * math.ulp(L)) * (4 if isinstance(fresh, Path) else 1)
            if not abs(st - b[0]) <= tol:
                acc.violation('second_call_misses_its_tolerance', sig, case, observed={'t': t, 'length(0,t)': st}, expected=b[0],
                              detail='tolerance %g; first call was ilength(%r, s_tol=%r)' % (tol, a[0], a[1]))


ILENGTH_OPTS = [
    ('error_loose_keyword', lambda c, s_, L: c.ilength(s_, error=1e-6 * L), 0.0),
    ('error_loose_positional', lambda c, s_, L: c.ilength(s_, 1e-12, 10000, 1e-6 * L, 5), 0.0),
    ('error_and_depth_loose', lambda c, s_, L: c.ilength(s_, error=1e-3 * L, min_depth=0), 0.0),
    ('s_tol_and_maxits_keyword', lambda c, s_, L: c.ilength(s_, s_tol=1e-9 * L, maxits=200), 1e-9),
    ('s_tol_positional', lambda c, s_, L: c.ilength(s_, 1e-7 * L), 1e-7),
    ('s_tol_tight_error_loose', lambda c, s_, L: c.ilength(s_, s_tol=1e-10 * L, error=1e-2 * L, min_depth=1), 1e-10),
    ('min_depth_raised', lambda c, s_, L: c.ilength(s_, min_depth=8), 0.0),
]


def check_options(desc, scale, acc, only=None):
    """non-default s_tol / maxits / error / min_depth, by keyword and by position, on curves whose segments have
    closed-form lengths (lines and quadratics: error and min_depth do not enter their lengths, so the answer must
    meet s_tol whatever error says) - and on every curve when only s_tol / min_depth are changed"""
    probe = make_curve(desc, scale)
    segs = list(probe) if isinstance(probe, Path) else [probe]
    exact = all(isinstance(g, (Line, QuadraticBezier)) for g in segs)
    kind = 'P' if isinstance(probe, Path) else type(probe).__name__[0]
    if any(not isinstance(g, (Arc, Line)) and (refgeom.speed_zero_in(list(g.bpoints()), 0, 1) or
                                               refgeom.near_speed_zero(list(g.bpoints()), 0, 1)) for g in segs):
        acc.filt('options_skip_speed_zero')
        return
    ref = Path(*[AB.fresh_copy(g) for g in probe]) if isinstance(probe, Path) else AB.fresh_copy(probe)
    L = ref.length()
    for oname, fn, rel_tol in ILENGTH_OPTS:
        if 'error' in oname and not exact:
            continue
        for f in (1 / 3.0, 0.5, 0.9):
            if only is not None and (only['option'], only['fraction']) != (oname, f):
                continue
            curve = make_curve(desc, scale)
            s_ = f * L
            case = {'curve': desc, 'scale': scale, 'option': oname, 'fraction': f}
            acc.case(case, cls='options/%s/%s' % (kind, oname))
            with warnings.catch_warnings():
                warnings.simplefilter('ignore')
                r = outcome(lambda: fn(curve, s_, L))
            sig = {'kind': kind, 'option': oname}
            if r[0] != 'ok' or not 0 <= float(r[1]) <= 1:
                acc.violation('ilength_raises_or_does_not_terminate', dict(sig, exc=r[1] if r[0] != 'ok' else 'out_of_range'), case, observed=r)
                continue
            t = float(r[1])
            if not isinstance(ref, Path):
                st = ref.length(0, t)
            else:
                st = path_length_upto(ref, t)
            tol = rel_tol * L + max(1e-12, 4096 * math.ulp(L)) * (4 if isinstance(ref, Path) else 1)
            if not abs(st - s_) <= tol:
                acc.violation('does_not_invert_length', sig, case, observed={'t': t, 'length(0,t)': st}, expected=s_,
                              detail='tolerance %g (requested s_tol %g L), L=%r' % (tol, rel_tol, L))


MUTATIONS = [('setitem', -1.0, -2.0), ('setitem', -3.0, -4.0), ('start=', -1.0, -2.0), ('start=', -3.0, -4.5),
             ('setitem_imag', -1.0, -2.0), ('end=', -1.0, -2.0)]


def check_after_mutation(mi, acc):
    """ilength, then an edit through the Path's interface, then ilength again - against a fresh Path of the
    edited segments.  The edits include -1 -> -2 (equal hashes in CPython)."""
    how, v0, v1 = MUTATIONS[mi]
    for tail in ('L', 'C'):
        second = Line(3 + 0j, 3 + 4j) if tail == 'L' else CubicBezier(3 + 0j, 4 + 1j, 4 + 3j, 3 + 4j)
        if how == 'setitem_imag':
            mk = lambda v: [Line(complex(0, v), 3 + 0j), second]
        elif how == 'end=':
            mk = lambda v: [Line(0j, 3 + 0j), Line(3 + 0j, complex(v, 5.0))]
        else:
            mk = lambda v: [Line(complex(v, 0), 3 + 0j), second]
        p = Path(*mk(v0))
        for frac in (0.3, 0.8):
            case = {'mutation': mi, 'tail': tail, 'fraction': frac}
            acc.case(case, cls='P/after_mutation')
            with warnings.catch_warnings():
                warnings.simplefilter('ignore')
                outcome(lambda: p.ilength(frac * p.length()))
                q = Path(*mk(v0))
                outcome(lambda: q.ilength(frac * q.length()))
                new = mk(v1)
                if how.startswith('setitem'):
                    q[0] = new[0]
                elif how == 'start=':
                    q.start = new[0].start
                else:
                    q.end = new[-1].end
                fresh = Path(*mk(v1))
                s_ = frac * fresh.length()
                r, w = outcome(lambda: q.ilength(s_)), outcome(lambda: fresh.ilength(s_))
            if r[0] != 'ok' or w[0] != 'ok' or not abs(float(r[1]) - float(w[1])) <= 1e-9:
                acc.violation('ilength_after_mutation_differs_from_fresh', {'how': how, 'same_hash': (v0, v1) == (-1.0, -2.0)}, case,
                              observed=r, expected=w)


def tier_params(tier, seed):
    if tier == 'quick':
        return {'scales': [1e-12, 1e-9, 1e-3, 0.1, 1.0, 1e2, 1e3, 1e4, 3.7e4, 1e5, 1e6], 'rots': [0, 37]}
    return {'scales': [1e-12, 1e-9, 1e-6, 1e-3, 1e-2, 0.1, 1.0, 10.0, 1e2, 1e3, 1e4, 1e5, 1e6, 3.7e4, 2.0 ** 20, 7.7e5], 'rots': [0, 37, 90, 211]}


def shards(tier, seed):
    tp = tier_params(tier, seed)
    out = [{'curve': d, 'scale': sc, 'rot': r} for sc in tp['scales'] for r in tp['rots'] for d in SHAPES + [list(p) for p in PATHS]]
    out += [{'what': 'sequences', 'curve': d, 'scale': sc} for d in SHAPES + [list(p) for p in PATHS]
            for sc in ([1.0] if tier == 'quick' else [1.0, 1e-2, 1e3])]
    out += [{'what': 'mutation', 'mi': i} for i in range(len(MUTATIONS))]
    out += AB.provenance_shards(out, tier, lambda d: 'what' not in d and isinstance(d['curve'], str) and d['scale'] == 1.0 and d['rot'] == 0) + \
        AB.provenance_shards(out, 'thorough', lambda d: 'what' not in d and not isinstance(d['curve'], str) and d['scale'] == 1.0 and d['rot'] == 0, key='pprov',
                             values=['measured', 'reversed_twice', 'parsed', 'loosely_measured', 'segments_loosely_measured',
                                     'loosely_measured_reversed_twice', 'strict_arcs', 'module_settings_changed_and_restored'])
    return out


def run_shard(desc, tier, seed):
    global DENSE
    DENSE = tier == 'thorough'
    acc = core.Acc()
    if desc.get('what') == 'mutation':
        check_after_mutation(desc['mi'], acc)
        return acc
    d = desc['curve']
    if desc.get('what') == 'sequences':
        check_call_sequences(d if isinstance(d, str) else tuple(d), desc['scale'], acc)
        check_options(d if isinstance(d, str) else tuple(d), desc['scale'], acc)
        return acc
    check_curve(d if isinstance(d, str) else tuple(d), desc['scale'], acc, rot=desc.get('rot', 0))
    return acc


def expected_classes(tier):
    return ['L/interior', 'Q/interior', 'C/interior', 'A/interior', 'P/interior', 'C/s=0', 'C/s=L', 'P/out_of_range',
            'C/call_sequence', 'A/call_sequence', 'P/call_sequence', 'P/after_mutation']


def space(tier, seed):
    return {'shapes': SHAPES, 'paths': PATHS, 'scales': tier_params(tier, seed)['scales'], 'rotations': tier_params(tier, seed)['rots'],
            's_alphabet': '0, L, L*2^-30, L/7, L/3, L/2, 0.9L, L(1-2^-52), L(1-1e-9), nextafter(0,1), 1e-9 L, path segment boundaries and their float neighbours; out of range: -L/10, -tiny, L(1+1e-9), 2L',
            'length_evaluation_budget': BUDGET,
            'options': [o[0] for o in ILENGTH_OPTS],
            'call_sequences': 'all ordered pairs of 12 calls (s in {L/3, L/3+1e-4L, L/2, 0.9L} x s_tol in {default, 1e-2 L, 1e-6 L}) on one object',
            'after_mutation': [list(m) for m in MUTATIONS]}


def replay(case):
    acc = core.ReplayAcc()
    if 'mutation' in case:
        check_after_mutation(case['mutation'], acc)
        acc.vlist = [v for v in acc.vlist if v['case'] == case]
        return acc.vlist
    d = case['curve']
    if 'option' in case:
        check_options(d if isinstance(d, str) else tuple(d), case['scale'], acc, only=case)
        return acc.vlist
    if 'sequence' in case:
        check_call_sequences(d if isinstance(d, str) else tuple(d), case['scale'], acc, only=case['sequence'])
        return acc.vlist
    d = d if isinstance(d, str) else tuple(d)
    if case.get('oor') or 's2' in case:
        check_curve(d, case['scale'], acc, rot=case.get('rot', 0))
        same = lambda a, b: a == b or (isinstance(a, float) and isinstance(b, float) and a != a and b != b)
        acc.vlist = [v for v in acc.vlist if same(v['case'].get('s'), case['s'])]
    else:
        check_curve(d, case['scale'], acc, only_s=[case['s']], rot=case.get('rot', 0))
    return acc.vlist
