"""C14  area() is the signed enclosed area; enclosure tests agree with crossing parity.

Product mode: ALL closed polygons with 3..k vertices on a 3x3 lattice (convex,
concave, self-intersecting, degenerate), two coordinate embeddings; closed
Bezier paths; ellipses from two arcs; transformations (reversed, translated,
scaled).  Oracles in exact rational arithmetic: shoelace / closed-form
integral of x dy, even-odd crossing parity of the same probe segment, proper
edge crossings for containment.  Probes not in general position (through a
vertex, along an edge) and polygons with retraced edges are filtered by exact
tests and counted.
"""
import itertools
import math
from fractions import Fraction

from mc import core
from mc import alphabets as AB
from mc.exact import F, QPoly, bezier_to_qpoly
from mc.enc import outcome

from svgpathtools import Line, QuadraticBezier, CubicBezier, Arc, Path
from svgpathtools.path import path_encloses_pt

ID = 'C14'
LEVEL = 'exploration'
RULE = ('all closed lattice polygons with 3..k vertices x embeddings; each with area (+ reversed/translated/scaled), a grid '
        'of enclosure probes and containment pairs; one case per (polygon, clause instance); non-trivial = polygon with '
        'non-zero area; distinct = distinct (polygon, probe)')
ASSUMPTIONS = ['exact rational shoelace / integral / orientation tests as oracle',
               'polygons with an edge retraced (collinear overlapping edges) are outside the enclosure clauses (Path.intersect documents coincident pieces as out of scope)',
               'arc areas within the polygonal chord approximation bound L*c^2/(8 r_min) for chord_length c']

LATTICE = [(i, j) for j in range(3) for i in range(3)]
EMB = {
    'int': lambda i, j: complex(float(i), float(j)),
    'nondyadic': lambda i, j: complex(0.1 + 0.7 * i, -0.3 + 1.1 * j),
    # a small polygon far from the origin: distinct crossings of one probe lie within 1e-5*|point| of each other
    'small_far': lambda i, j: complex(1000.0 + 0.004 * i, 1000.0 + 0.003 * j),
    # a drawing a thousand million times smaller (the outside points of the enclosure probes stay where they are:
    # the probe is then ~1e9 times longer than the polygon)
    'tiny': lambda i, j: complex((0.1 + 0.7 * i) * 1e-9, (-0.3 + 1.1 * j) * 1e-9),
}
OUTSIDE = [(-3.7, -2.3), (5.1, 7.3), (-4.9, 6.1), (8.3, -1.7)]
MARGIN = Fraction(1, 10 ** 9)


def polygons(k):
    for n in range(3, k + 1):
        for idx in itertools.product(range(9), repeat=n):
            if idx[0] != min(idx):
                continue                       # rotations of the same cycle: keep the one starting at its smallest index
            if any(idx[i] == idx[(i + 1) % n] for i in range(n)):
                continue
            yield idx


def Q(z):
    return (F(z.real), F(z.imag))


def orient(a, b, c):
    return (b[0] - a[0]) * (c[1] - a[1]) - (b[1] - a[1]) * (c[0] - a[0])


def on_segment(a, b, c):
    """c collinear with ab assumed; is c within the closed segment"""
    return min(a[0], b[0]) <= c[0] <= max(a[0], b[0]) and min(a[1], b[1]) <= c[1] <= max(a[1], b[1])


def seg_relation(p, q, a, b, MARGIN=MARGIN, unit=1):
    """'cross' (proper), 'none', or 'degenerate' (touching / collinear overlap).  unit: the length scale of the
    drawing (1 for the ordinary embeddings, 1e-9 for the tiny one): "near" means within MARGIN*unit of a line"""
    o1, o2, o3, o4 = orient(p, q, a), orient(p, q, b), orient(a, b, p), orient(a, b, q)
    # general position with a margin: a point within ~1e-9 (of the drawing's unit) of the other segment's line (in
    # floats it may land on either side) makes the configuration undecidable for any closed-interval test
    for o, (u, v, w) in ((o1, (p, q, a)), (o2, (p, q, b)), (o3, (a, b, p)), (o4, (a, b, q))):
        ln = max(abs(u[0] - v[0]), abs(u[1] - v[1])) if unit != 1 else 1     # |o| = length of uv x distance of w from its line
        if o != 0 and abs(o) < MARGIN * unit * ln:
            lo = (min(u[0], v[0]) - MARGIN * unit, min(u[1], v[1]) - MARGIN * unit)
            hi = (max(u[0], v[0]) + MARGIN * unit, max(u[1], v[1]) + MARGIN * unit)
            if lo[0] <= w[0] <= hi[0] and lo[1] <= w[1] <= hi[1]:
                return 'degenerate'
    if o1 == 0 and o2 == 0:
        # collinear: overlap?
        if on_segment(p, q, a) or on_segment(p, q, b) or on_segment(a, b, p) or on_segment(a, b, q):
            return 'degenerate'
        return 'none'
    if (o1 == 0 and on_segment(p, q, a)) or (o2 == 0 and on_segment(p, q, b)) or \
            (o3 == 0 and on_segment(a, b, p)) or (o4 == 0 and on_segment(a, b, q)):
        return 'degenerate'
    if ((o1 > 0) != (o2 > 0)) and ((o3 > 0) != (o4 > 0)) and o1 != 0 and o2 != 0 and o3 != 0 and o4 != 0:
        return 'cross'
    return 'none'


def retraced(vq, MARGIN=MARGIN):
    n = len(vq)
    edges = [(vq[i], vq[(i + 1) % n]) for i in range(n)]
    for i in range(n):
        for j in range(i + 1, n):
            (a, b), (c, d) = edges[i], edges[j]
            if abs(orient(a, b, c)) < MARGIN and abs(orient(a, b, d)) < MARGIN:
                # collinear edges: overlapping in more than a point?
                lo1, hi1 = sorted([a, b])
                lo2, hi2 = sorted([c, d])
                lo, hi = max(lo1, lo2), min(hi1, hi2)
                if lo < hi:
                    return True
    return False


def shoelace(vq):
    n = len(vq)
    return sum(vq[i][0] * vq[(i + 1) % n][1] - vq[(i + 1) % n][0] * vq[i][1] for i in range(n)) / 2


def check_polygon(idx, emb, acc, only=None):
    E = EMB[emb]
    verts = [E(*LATTICE[i]) for i in idx]
    n = len(verts)
    vq = [Q(v) for v in verts]
    p = AB.derive_path(Path(*[Line(verts[i], verts[(i + 1) % n]) for i in range(n)]))
    p_rep = Path(*([Line(verts[i], verts[(i + 1) % n]) for i in range(n)] + [Line(verts[0], verts[0])]))
    exact = shoelace(vq)
    scale2 = 16.0 if emb != 'small_far' else 1.0     # area tolerance 1e-12*scale2 (coordinates ~1e3: eps*|p|*size)
    if emb == 'tiny':
        scale2 = 16.0e-18
    base = {'what': 'polygon', 'idx': list(idx), 'emb': emb}
    shape = 'zero_area' if exact == 0 else ('ccw' if exact > 0 else 'cw')
    sig0 = {'n': n, 'shape': shape}
    if only in (None, 'area'):
        acc.case(dict(base, q='area'), cls='area/%s' % shape, nontrivial=exact != 0)
        r = outcome(lambda: p.area())
        if r[0] != 'ok' or not abs(float(r[1]) - float(exact)) <= 1e-12 * scale2:
            acc.violation('area_wrong', sig0, dict(base, q='area'), observed=r, expected=float(exact))
        else:
            a = float(r[1])
            for tname, fn, want in ((('zero_length_closer', lambda: p_rep.area(), a), ('reversed', lambda: p.reversed().area(), -a),
                                     ('scaled_uniform', lambda: p.scaled(3.0).area(), a * 9.0)) if emb == 'tiny' else ()) or \
                                   (('zero_length_closer', lambda: p_rep.area(), a),
                                    ('reversed', lambda: p.reversed().area(), -a),
                                    ('translated', lambda: p.translated(3.25 - 1.5j).area(), a),
                                    ('scaled', lambda: p.scaled(2.0, 0.5).area(), a * 1.0),
                                    ('scaled_neg', lambda: p.scaled(-1.5, 2.0).area(), a * -3.0),
                                    ('scaled_uniform', lambda: p.scaled(3.0).area(), a * 9.0),
                                    # the optional arguments by keyword, an origin, and the degenerate factors (determinant 0)
                                    ('scaled_keywords', lambda: p.scaled(sx=2.0, sy=0.5).area(), a * 1.0),
                                    ('scaled_sy_keyword_origin', lambda: p.scaled(-1.5, sy=2.0, origin=1.25 - 0.5j).area(), a * -3.0),
                                    ('scaled_uniform_origin', lambda: p.scaled(3.0, origin=-2 + 7j).area(), a * 9.0),
                                    ('scaled_sy_equal_sx_origin', lambda: p.scaled(3.0, 3.0, 1 + 1j).area(), a * 9.0),
                                    ('scaled_sy_zero', lambda: p.scaled(2.0, 0).area(), 0.0),
                                    ('scaled_sy_zero_float', lambda: p.scaled(2.0, 0.0).area(), 0.0),
                                    ('scaled_sx_zero', lambda: p.scaled(0, 3.0).area(), 0.0),
                                    ('rotated_about_origin', lambda: p.rotated(30, origin=0j).area(), a),
                                    ('rotated_default_origin', lambda: p.rotated(30).area(), a),
                                    ('rotated_positional_origin', lambda: p.rotated(-75, 3 - 2j).area(), a)):
                rr = outcome(fn)
                acc.case(dict(base, q=tname), cls='area_transform/%s' % tname, nontrivial=exact != 0)
                if rr[0] != 'ok' or not abs(float(rr[1]) - want) <= 1e-10 * scale2 * 9:
                    acc.violation('area_transform', dict(sig0, transform=tname), dict(base, q=tname), observed=rr, expected=want)
    if only not in (None, 'encloses'):
        return
    if retraced(vq, MARGIN if emb != 'tiny' else Fraction(1, 10 ** 27)):
        acc.filt('retraced_edge_polygon_enclosure_skipped')
        return
    edges = [(vq[i], vq[(i + 1) % n]) for i in range(n)]
    for (qi, qj) in itertools.product(range(-1, 3), repeat=2):
        pt = E(qi + 0.5, qj + 0.5)
        for oi, o in enumerate(OUTSIDE):
            opt = complex(*o)
            pq, oq = Q(pt), Q(opt)
            rel = [seg_relation(pq, oq, a, b, MARGIN, 1 if emb != 'tiny' else Fraction(1, 10 ** 9)) for a, b in edges]
            if 'degenerate' in rel:
                acc.filt('probe_not_in_general_position')
                continue
            inside = rel.count('cross') % 2 == 1
            case = dict(base, q='encloses', pt=core.jz(pt), opt=core.jz(opt))
            acc.case(case, cls='encloses/%s' % ('inside' if inside else 'outside'), nontrivial=exact != 0)
            r = outcome(lambda: path_encloses_pt(pt, opt, p))
            if r[0] != 'ok' or bool(r[1]) != inside:
                acc.violation('encloses_wrong', dict(sig0, expected_inside=inside), case, observed=r, expected=inside,
                              detail='%d proper crossings' % rel.count('cross'))
            if n <= 4:
                # the same polygon as the library's own polygon converter writes it when the point list repeats
                # its first point: closed by a Line of length ZERO
                r2 = outcome(lambda: path_encloses_pt(pt, opt, p_rep))
                acc.case(dict(case, repeated_first_point=True), cls='encloses_zero_length_closer')
                if r2[0] != 'ok' or bool(r2[1]) != inside:
                    acc.violation('encloses_wrong', dict(sig0, expected_inside=inside, zero_length_closing_line=True),
                                  dict(case, repeated_first_point=True), observed=r2, expected=inside)


def small_poly(idx, emb, factor, shift):
    E = EMB[emb]
    return [E(*LATTICE[i]) * factor + shift for i in idx]


def check_containment(outer_idx, inner_idx, emb, factor, shift, acc):
    E = EMB[emb]
    ov = [E(*LATTICE[i]) for i in outer_idx]
    iv = small_poly(inner_idx, emb, factor, shift)
    oq, iq = [Q(v) for v in ov], [Q(v) for v in iv]
    if retraced(oq) or retraced(iq):
        acc.filt('retraced_edge_polygon_containment_skipped')
        return
    no, ni = len(ov), len(iv)
    outer = AB.derive_path(Path(*[Line(ov[i], ov[(i + 1) % no]) for i in range(no)]))
    inner = AB.derive_path(Path(*[Line(iv[i], iv[(i + 1) % ni]) for i in range(ni)]))
    oedges = [(oq[i], oq[(i + 1) % no]) for i in range(no)]
    iedges = [(iq[i], iq[(i + 1) % ni]) for i in range(ni)]
    rels = [seg_relation(a, b, c, d) for a, b in iedges for c, d in oedges]
    if 'degenerate' in rels:
        acc.filt('containment_pair_touching')
        return
    crossing = 'cross' in rels
    xs = [float(v[0]) for v in oq]
    ys = [float(v[1]) for v in oq]
    opt = complex(min(xs) - 1, min(ys) - 1)
    pt = iv[0]
    prel = [seg_relation(Q(pt), Q(opt), c, d) for c, d in oedges]
    if 'degenerate' in prel:
        acc.filt('containment_probe_not_general')
        return
    enclosed = prel.count('cross') % 2 == 1
    want = (not crossing) and enclosed
    case = {'what': 'containment', 'outer': list(outer_idx), 'inner': list(inner_idx), 'emb': emb, 'factor': factor, 'shift': core.jz(shift)}
    acc.case(case, cls='contained/%s' % ('crossing' if crossing else ('nested' if enclosed else 'disjoint')))
    r = outcome(lambda: inner.is_contained_by(outer))
    if r[0] != 'ok' or bool(r[1]) != want:
        acc.violation('is_contained_by_wrong', {'relation': 'crossing' if crossing else ('nested' if enclosed else 'disjoint')},
                      case, observed=r, expected=want)


# ---------------------------------------------------------------- curved closed paths

def bezier_exact_area(segs):
    tot = Fraction(0)
    for s in segs:
        pts = list(s.bpoints())
        X = bezier_to_qpoly([F(complex(p).real) for p in pts])
        Y = bezier_to_qpoly([F(complex(p).imag) for p in pts])
        g = X * Y.deriv()
        # integral over [0,1]
        tot += sum(c / (i + 1) for i, c in enumerate(g.c))
    return tot


CURVED = [
    ('lens_QQ', [('Q', 0j, 2 + 3j, 4 + 0j), ('Q', 4 + 0j, 2 - 3j, 0j)]),
    ('drop_C', [('C', 0j, 4 + 3j, -1 + 3j, 0j)]),
    ('mixed_LCQ', [('L', 0j, 4 + 0j), ('C', 4 + 0j, 6 + 2j, 5 + 5j, 2 + 4j), ('Q', 2 + 4j, -1 + 3j, 0j)]),
    ('figure8_CC', [('C', 0j, 3 + 3j, 3 - 3j, 6 + 0j), ('C', 6 + 0j, 3 + 3j, 3 - 3j, 0j)]),
    ('nondyadic', [('C', 0.1 + 0.2j, 1.3 + 0.7j, 0.9 + 2.1j, -0.4 + 1.7j), ('L', -0.4 + 1.7j, 0.1 + 0.2j)]),
    ('penta_Q', [('Q', 0j, 2.1 - 1.3j, 4.3 + 0.2j), ('Q', 4.3 + 0.2j, 6.7 + 1.9j, 5.2 + 4.1j), ('Q', 5.2 + 4.1j, 3.9 + 6.3j, 1.8 + 5.2j),
                 ('Q', 1.8 + 5.2j, -0.9 + 4.4j, -1.1 + 2.3j), ('Q', -1.1 + 2.3j, -1.7 + 0.6j, 0j)]),
]


def mk_curved(spec):
    out = []
    for s in spec:
        out.append({'L': Line, 'Q': QuadraticBezier, 'C': CubicBezier}[s[0]](*s[1:]))
    return out


def check_curved(name, acc):
    spec = dict(CURVED)[name]
    segs = mk_curved(spec)
    p = AB.derive_path(Path(*segs))
    exact = bezier_exact_area(segs)
    case = {'what': 'curved', 'name': name}
    acc.case(case, cls='area/curved', nontrivial=True)
    r = outcome(lambda: p.area())
    if r[0] != 'ok' or not abs(float(r[1]) - float(exact)) <= 1e-11 * 64:
        acc.violation('area_wrong', {'n': len(segs), 'shape': 'curved'}, case, observed=r, expected=float(exact))
        return
    rr = outcome(lambda: p.reversed().area())
    if rr[0] != 'ok' or not abs(float(rr[1]) + float(exact)) <= 1e-11 * 64:
        acc.violation('area_transform', {'n': len(segs), 'shape': 'curved', 'transform': 'reversed'}, case, observed=rr, expected=-float(exact))
    # the same after the path has answered other queries (whatever those cached must not leak into
    # copies made afterwards, nor change the path's own answers)
    xs = [complex(q).real for s_ in segs for q in s_.bpoints()]
    ys = [complex(q).imag for s_ in segs for q in s_.bpoints()]
    inside_guess = complex((min(xs) + max(xs)) / 2 + 0.0137, (min(ys) + max(ys)) / 2 - 0.0071)
    outside = complex(min(xs) - 1.0, min(ys) - 1.37)
    for q in (lambda: p.length(), lambda: p.bbox(), lambda: path_encloses_pt(inside_guess, outside, p),
              lambda: path_encloses_pt(outside + 0.5, outside, p), lambda: p.point(0.3), lambda: [s_.poly() for s_ in p],
              lambda: [s_.length() for s_ in p], lambda: p.d()):
        outcome(q)
    for tname, fn, want in (('area_again', lambda: p.area(), float(exact)),
                            ('reversed_after_queries', lambda: p.reversed().area(), -float(exact)),
                            ('reversed_twice_after_queries', lambda: p.reversed().reversed().area(), float(exact)),
                            ('translated_after_queries', lambda: p.translated(2 - 1j).area(), float(exact)),
                            ('segments_reversed_after_queries', lambda: Path(*[s_.reversed() for s_ in reversed(list(p))]).area(), -float(exact))):
        rr = outcome(fn)
        acc.case(dict(case, transform=tname), cls='area_transform/after_queries')
        if rr[0] != 'ok' or not abs(float(rr[1]) - want) <= 1e-11 * 64 * max(1.0, abs(want)):
            acc.violation('area_transform', {'n': len(segs), 'shape': 'curved', 'transform': tname}, dict(case, transform=tname), observed=rr, expected=want)


def check_curved_enclosure(name, acc, only=None, scale=1.0):
    """path_encloses_pt on closed Bezier paths; the crossing parity of the probe is decided exactly
    per segment (mc/isect.exact_line_bezier_count); probes include directions parallel to a
    quadratic's axis a = P0 - 2 P1 + P2 (where the quadratic coefficient of the line equation vanishes)"""
    from mc import isect
    spec = dict(CURVED)[name]
    segs = mk_curved(spec)
    if scale != 1.0:
        segs = [type(s_)(*[complex(q) * scale for q in s_.bpoints()]) for s_ in segs]
        for i_ in range(len(segs)):
            segs[i_].start = segs[i_ - 1].end
    p = AB.derive_path(Path(*segs))
    xs = [complex(q).real for s_ in segs for q in s_.bpoints()]
    ys = [complex(q).imag for s_ in segs for q in s_.bpoints()]
    x0, x1, y0, y1 = min(xs), max(xs), min(ys), max(ys)
    pts = [complex(x0 + (x1 - x0) * (i + 0.37) / 4, y0 + (y1 - y0) * (j + 0.41) / 4) for i in range(4) for j in range(4)]
    probes = []
    far = max(x1 - x0, y1 - y0) * 7 + 13 * scale
    for pt in pts:
        for o in OUTSIDE:
            probes.append((pt, complex(o[0] * 3 * scale + x0, o[1] * 3 * scale + y0)))
        for s_ in segs:
            b = list(s_.bpoints())
            if len(b) == 3:
                a = b[0] - 2 * b[1] + b[2]
                if a != 0:
                    probes.append((pt, pt + far * a / abs(a)))
                    probes.append((pt, pt - far * a / abs(a)))
            if len(b) == 4:
                a = -b[0] + 3 * b[1] - 3 * b[2] + b[3]
                if a != 0:
                    probes.append((pt, pt + far * a / abs(a)))
    for pt, opt in probes:
        case = {'what': 'curved_encloses', 'name': name, 'pt': core.jz(pt), 'opt': core.jz(opt)}
        if scale != 1.0:
            case['scale'] = scale
        if only and case != only:
            continue
        counts = [isect.exact_line_bezier_count(list(s_.bpoints()), pt, opt) for s_ in segs]
        if any(c is None for c in counts):
            acc.filt('curved_probe_not_in_general_position')
            continue
        # the far end must really be outside: its own probe to a very far generic point crosses evenly
        far2 = complex(1e4 + 17.3, -2e4 + 5.1) * scale
        c2 = [isect.exact_line_bezier_count(list(s_.bpoints()), opt, far2) for s_ in segs]
        if any(c is None for c in c2) or sum(c2) % 2 == 1:
            acc.filt('curved_probe_far_end_not_outside')
            continue
        inside = sum(counts) % 2 == 1
        acc.case(case, cls='curved_encloses/%s' % ('inside' if inside else 'outside'))
        r = outcome(lambda: path_encloses_pt(pt, opt, p))
        if r[0] != 'ok' or bool(r[1]) != inside:
            acc.violation('encloses_wrong', {'shape': 'curved', 'expected_inside': inside}, case, observed=r, expected=inside,
                          detail='exact crossings per segment %r' % counts)


ELLIPSES = [(2.0, 2.0, 0.0), (3.0, 1.0, 0.0), (3.0, 1.0, 30.0), (1.0, 2.5, -45.0)]


def check_ellipse(rx, ry, rot, sweep, acc):
    c = 1.5 - 0.5j
    w = complex(math.cos(math.radians(rot)), math.sin(math.radians(rot)))
    a, b = c + rx * w, c - rx * w
    p = Path(Arc(a, complex(rx, ry), rot, 0, sweep, b), Arc(b, complex(rx, ry), rot, 0, sweep, a))
    want = math.pi * rx * ry * (1 if sweep else -1)
    chord = 0.01
    L = 2 * math.pi * max(rx, ry)
    bound = L * chord ** 2 / (8 * min(rx, ry)) * max(rx, ry) / min(rx, ry) + 1e-9
    case = {'what': 'ellipse', 'rx': rx, 'ry': ry, 'rot': rot, 'sweep': sweep}
    acc.case(case, cls='area/ellipse')
    r = outcome(lambda: p.area(chord_length=chord))
    if r[0] != 'ok' or not abs(float(r[1]) - want) <= bound:
        acc.violation('area_wrong', {'n': 2, 'shape': 'ellipse'}, case, observed=r, expected=want, detail='bound %g' % bound)
    # the same ellipse from two arcs constructed with autoscale_radius=False (half ellipses fit their chord exactly;
    # where rounding makes the strict constructor refuse, the variant is skipped), and similarity transforms of both
    variants = [('default', p)]
    st = outcome(lambda: Path(Arc(a, complex(rx, ry), rot, 0, sweep, b, autoscale_radius=False), Arc(b, complex(rx, ry), rot, 0, sweep, a, autoscale_radius=False)))
    if st[0] == 'ok':
        variants.append(('strict', st[1]))
        acc.seen('area/ellipse_of_strict_arcs')
    for vname, q in variants:
        for tname, fn, k in (('identity', lambda: q.area(chord_length=chord), 1.0),
                             ('rotated30', lambda: q.rotated(30).area(chord_length=chord), 1.0),
                             ('rotated_about_point', lambda: q.rotated(-75, origin=3 - 2j).area(chord_length=chord), 1.0),
                             ('translated', lambda: q.translated(0.001 + 2j).area(chord_length=chord), 1.0),
                             ('scaled_small_about_point', lambda: q.scaled(0.1, origin=1 + 1j).area(chord_length=chord * 0.1), 0.01),
                             ('scaled_2', lambda: q.scaled(2.0).area(chord_length=chord * 2), 4.0),
                             ('scaled_sy_equal_sx', lambda: q.scaled(2.0, 2.0).area(chord_length=chord * 2), 4.0),
                             ('reversed', lambda: q.reversed().area(chord_length=chord), -1.0)):
            if vname == 'default' and tname == 'identity':
                continue
            c2 = dict(case, arcs=vname, transform=tname)
            acc.case(c2, cls='area/ellipse_%s/%s' % (vname, tname))
            rr = outcome(fn)
            if rr[0] != 'ok' or not abs(float(rr[1]) - k * want) <= abs(k) * bound * 1.5 + 1e-9:
                acc.violation('area_transform', {'n': 2, 'shape': 'ellipse', 'arcs': vname, 'transform': tname}, c2, observed=rr, expected=k * want)


def check_rounded_rect(r, chord, sweep_dir, acc):
    """rounded rectangle 8 x 5 with corner radius r: four quarter-circle arcs, each approximated by
    N = ceil(arc length / chord) chords; the polygonal approximation loses at most the circular
    segments cut off by those chords"""
    w, h = 8.0, 5.0
    pts = [complex(r, 0), complex(w - r, 0), complex(w, r), complex(w, h - r), complex(w - r, h), complex(r, h),
           complex(0, h - r), complex(0, r)]
    segs = []
    for i in range(4):
        a, b, c = pts[2 * i], pts[2 * i + 1], pts[(2 * i + 2) % 8]
        segs.append(Line(a, b))
        segs.append(Arc(b, complex(r, r), 0, 0, 1, c))
    p = AB.derive_path(Path(*segs))
    if not sweep_dir:
        p = p.reversed()
    exact = (w * h - (4 - math.pi) * r * r) * (1 if sweep_dir else -1)
    L = math.pi * r / 2
    N = max(1, math.ceil(L / chord))
    phi = (math.pi / 2) / N
    deficit = 4 * N * (r * r / 2) * (phi - math.sin(phi))
    case = {'what': 'rounded_rect', 'r': r, 'chord': chord, 'ccw': sweep_dir}
    acc.case(case, cls='area/arcs_N%s' % ('1' if N == 1 else ('2-4' if N <= 4 else 'many')))
    r_ = outcome(lambda: p.area(chord_length=chord))
    # any chord polygon with chords <= chord_length loses at most 1.5x what equal steps lose
    if r_[0] != 'ok' or not abs(float(r_[1]) - exact) <= 1.5 * deficit + 1e-9:
        acc.violation('area_wrong', {'n': 8, 'shape': 'rounded_rect', 'chords_per_arc': 'one' if N == 1 else 'several'}, case,
                      observed=r_, expected=exact, detail='allowed deficit %g (N=%d chords per arc)' % (1.5 * deficit, N))


def tier_params(tier, seed):
    return {'k': 4 if tier == 'quick' else 5, 'embs': ['int', 'nondyadic', 'small_far', 'tiny']}


NSH = 48


def shards(tier, seed):
    out = [{'what': 'polygons', 'emb': e, 'shard': i} for e in tier_params(tier, seed)['embs'] for i in range(NSH)]
    out += [{'what': 'containment', 'emb': e} for e in tier_params(tier, seed)['embs']]
    out.append({'what': 'curved'})
    out += AB.provenance_shards(out, tier, lambda d: d['what'] in ('curved', 'containment') or (d['what'] == 'polygons' and (tier == 'thorough' or d['shard'] % 4 == 0)), key='pprov')
    return out


def containment_pairs(tier):
    outers = [(0, 2, 8, 6), (0, 2, 8), (0, 2, 4, 8, 6), (0, 1, 5, 8, 7, 3), (0, 2, 6, 8), (0, 8, 2, 6), (1, 5, 7, 3)]
    inners = [(0, 2, 8, 6), (0, 2, 8), (0, 8, 6), (1, 5, 3)]
    factors = [0.17, 0.41]
    shifts = [0.53 + 0.61j, 1.37 + 0.29j, -0.83 + 0.77j, 1.91 + 1.07j, 0.23 + 1.63j, 3.1 + 0.4j, 0.9 + 0.95j, 1.62 + 1.58j]
    for o, i, f, s in itertools.product(outers, inners, factors, shifts):
        yield o, i, f, s


def run_shard(desc, tier, seed):
    acc = core.Acc()
    tp = tier_params(tier, seed)
    if desc['what'] == 'polygons':
        for n, idx in enumerate(polygons(tp['k'])):
            if n % NSH == desc['shard']:
                check_polygon(idx, desc['emb'], acc)
    elif desc['what'] == 'containment':
        for o, i, f, s in containment_pairs(tier):
            check_containment(o, i, desc['emb'], f, s, acc)
    else:
        for name, _ in CURVED:
            check_curved(name, acc)
            check_curved_enclosure(name, acc)
            for sc_ in (1e-9, 1e6):
                check_curved_enclosure(name, acc, scale=sc_)
        for rx, ry, rot in ELLIPSES:
            for sw in (0, 1):
                check_ellipse(rx, ry, rot, sw, acc)
        for r in (0.25, 1.0, 2.0):
            for chord in (0.01, 0.3, 0.5, 1.0, 5.0):
                for d in (True, False):
                    check_rounded_rect(r, chord, d, acc)
    return acc


def expected_classes(tier):
    return ['area/ccw', 'area/cw', 'area/zero_area', 'area/curved', 'area/ellipse', 'encloses/inside', 'encloses/outside',
            'contained/nested', 'contained/disjoint', 'contained/crossing', 'curved_encloses/inside', 'curved_encloses/outside', 'area/arcs_N1', 'area/arcs_Nmany', 'area_transform/reversed', 'area_transform/scaled_neg', 'area_transform/after_queries', 'encloses_zero_length_closer']


def space(tier, seed):
    tp = tier_params(tier, seed)
    return {'lattice': '3x3', 'max_vertices': tp['k'], 'polygons': sum(1 for _ in polygons(tp['k'])), 'embeddings': tp['embs'],
            'probe_points': '4x4 half-lattice points x 4 outside points', 'containment_pairs': sum(1 for _ in containment_pairs(tier)),
            'curved_paths': [n for n, _ in CURVED], 'ellipses': ELLIPSES}


def replay(case):
    acc = core.ReplayAcc()
    w = case['what']
    if w == 'polygon':
        check_polygon(tuple(case['idx']), case['emb'], acc, only='area' if case['q'] != 'encloses' else 'encloses')
        if case['q'] == 'encloses':
            acc.vlist = [v for v in acc.vlist if v['case'].get('pt') == case['pt'] and v['case'].get('opt') == case['opt']]
        else:
            acc.vlist = [v for v in acc.vlist if v['case'].get('q') == case['q']]
    elif w == 'containment':
        check_containment(tuple(case['outer']), tuple(case['inner']), case['emb'], case['factor'], complex(*case['shift']), acc)
    elif w == 'curved_encloses':
        check_curved_enclosure(case['name'], acc, only=case, scale=case.get('scale', 1.0))
    elif w == 'curved':
        check_curved(case['name'], acc)
    elif w == 'rounded_rect':
        check_rounded_rect(case['r'], case['chord'], case['ccw'], acc)
    else:
        check_ellipse(case['rx'], case['ry'], case['rot'], case['sweep'], acc)
    return acc.vlist
