"""C19  Generic n-th order Bezier and polynomial helpers are exact and lose no roots.

 * identities per degree 0..8 decided for all inputs by degree certificate +
   exhaustive exact product grid (mc/gridproof.py);
 * polyroots / polyroots01: prescribed root multisets x EVERY permutation of the
   order in which numpy.roots returns them (environment enumeration through a
   wrapper around numpy.roots);
 * rational_limit: integer polynomials with common zeros of every multiplicity
   pattern up to 3, against exact rational limits.
"""
import itertools
import math
from fractions import Fraction

import numpy as np

from mc import core, gridproof
from mc.exact import GQ, F, bernstein_eval, QPoly
from mc.enc import outcome
from mc.props.c03 import ref_power_coeffs

import svgpathtools.polytools as PT
from svgpathtools.bezier import (bezier_point, bezier2polynomial, polynomial2bezier, split_bezier,
                                 halve_bezier, bernstein, n_choose_k)
from svgpathtools.polytools import polyroots, polyroots01, rational_limit
from svgpathtools import Arc

ID = 'C19'
LEVEL = 'model_checking'
RULE = ('identities: full product grids per degree 0..8 (exact arithmetic through the real helpers); roots: '
        'every root multiset of the alphabet x every permutation of the numpy.roots answer; rational_limit: all '
        'multiplicity patterns; non-trivial = grid point / permutation that is not the identity permutation of a '
        'single-root polynomial; distinct = distinct (helper, assignment) or (multiset, permutation)')
ASSUMPTIONS = [
    'grid lemma + degree certificate as in C03',
    'numpy.roots is replaced by a wrapper returning numpy\'s own roots of the same polynomial in an explorer-chosen order',
    'roots exactly on the boundary of the condition (0 and 1 for polyroots01) are not demanded: a closed-interval test cannot decide them under rounding',
]


def pv(n):
    return ['p%d' % i for i in range(n + 1)]


def ref_split(pts, t):
    n = len(pts)
    left = [bernstein_eval(pts[:i + 1], t) for i in range(n)]
    right = [bernstein_eval(pts[i:], t) for i in range(n)]
    return [left, right]


def identities(n):
    v = pv(n)
    pts = lambda kw: [kw[x] for x in v]
    ids = [
        ('bezier_point', v + ['t'], lambda **kw: bezier_point(pts(kw), kw['t']), lambda **kw: bernstein_eval(pts(kw), kw['t'])),
        ('bezier_point_tuple', v + ['t'], lambda **kw: bezier_point(tuple(pts(kw)), kw['t']), lambda **kw: bernstein_eval(pts(kw), kw['t'])),
        ('bezier2polynomial', v, lambda **kw: list(bezier2polynomial(pts(kw))), lambda **kw: ref_power_coeffs(pts(kw))),
        ('bezier2polynomial_std', v, lambda **kw: list(bezier2polynomial(pts(kw), numpy_ordering=False)),
         lambda **kw: ref_power_coeffs(pts(kw))[::-1]),
        ('bezier2polynomial_poly1d', v + ['t'], lambda **kw: bezier2polynomial(pts(kw), return_poly1d=True)(kw['t']),
         lambda **kw: bernstein_eval(pts(kw), kw['t'])),
        # the same options given by position, and both at once
        ('bezier2polynomial_std_positional', v, lambda **kw: list(bezier2polynomial(pts(kw), False)),
         lambda **kw: ref_power_coeffs(pts(kw))[::-1]),
        ('bezier2polynomial_numpy_positional', v, lambda **kw: list(bezier2polynomial(pts(kw), True, False)),
         lambda **kw: ref_power_coeffs(pts(kw))),
        ('bezier2polynomial_poly1d_positional', v + ['t'], lambda **kw: bezier2polynomial(pts(kw), True, True)(kw['t']),
         lambda **kw: bernstein_eval(pts(kw), kw['t'])),
        # (numpy_ordering=False together with return_poly1d=True is not in the alphabet: the documentation defines
        #  numpy_ordering for the returned coefficient tuple only, and a poly1d has one fixed coefficient order)
        ('split_bezier', v + ['t'], lambda **kw: [list(x) for x in split_bezier(pts(kw), kw['t'])],
         lambda **kw: ref_split(pts(kw), kw['t'])),
        ('halve_bezier', v, lambda **kw: [list(x) for x in halve_bezier(pts(kw))],
         lambda **kw: ref_split(pts(kw), Fraction(1, 2))),
        ('bernstein_partition', ['t'], lambda **kw: sum(bernstein(n, kw['t'])), lambda **kw: 1 + 0 * kw['t']),
    ]
    if 1 <= n <= 3:
        ids.append(('polynomial2bezier_inverse_a', v, lambda **kw: list(polynomial2bezier(list(bezier2polynomial(pts(kw))))),
                    lambda **kw: pts(kw)))
        ids.append(('polynomial2bezier_inverse_b', v, lambda **kw: list(bezier2polynomial(list(polynomial2bezier(pts(kw))))),
                    lambda **kw: pts(kw)))
        ids.append(('polynomial2bezier_poly1d', v + ['t'],
                    lambda **kw: bernstein_eval(list(polynomial2bezier(np.poly1d(pts(kw)))), kw['t']),
                    lambda **kw: _horner(pts(kw), kw['t'])))
    return ids


def _horner(c, t):
    r = 0 * c[0]
    for x in c:
        r = r * t + x
    return r


def run_identities(n, choice, acc, only=None):
    for name, variables, impl, ref in identities(n):
        if only and name != only:
            continue
        r = gridproof.certify(impl, ref, variables, choice)
        acc.evaluations += r['grid_points']
        cls = 'exact/deg%d/%s/%s' % (n, name, 'certified' if r['certificate'] else 'grid_only')
        acc.seen(cls, r['grid_points'])
        acc.samples.setdefault(cls, {'degree': n, 'identity': name, 'choice': choice, 'degrees': r['degrees'],
                                     'grid_points': r['grid_points'], 'note': r['error']})
        for i in range(r['grid_points']):
            acc.nontrivial.add(core.h64('%d/%s/%d/%d' % (n, name, choice, i)))
        key = 'deg%d.%s' % (n, name)
        good = bool(r['certificate'] and r['ok'])
        d = acc.extra.setdefault('certificate_runs_ok' if good else 'certificate_runs_failed', {})
        d[key] = d.get(key, 0) + 1
        if not r['ok']:
            acc.violation('identity_fails', {'helper': name, 'degree': n if n > 3 else 'le3'},
                          {'what': 'identity', 'degree': n, 'identity': name, 'choice': choice},
                          observed=r.get('observed', r['error']), expected=r.get('expected'),
                          detail='assignment %s' % r['mismatch'])


def run_special(n, acc, only=None):
    """degenerate control-point tuples (leading coefficients exactly zero, coincident points): a
    value-dependent shortcut is invisible to the grid lemma, so these are evaluated explicitly"""
    G = lambda a, b=0: GQ(Fraction(a), Fraction(b))
    assigns = [[G(i, 2 * i) for i in range(n + 1)], [G(0)] * (n + 1), [G(3, -1)] * n + [G(5, 2)], [G(2, 1)] * (n + 1)]
    if n >= 2:
        assigns.append([G(0), G(1, 2)] + [G(2 * i, 4 - i) for i in range(1, n)])
    for name, variables, impl, ref in identities(n):
        if only and name != only:
            continue
        for ai, pts_ in enumerate(assigns):
            for t in (Fraction(0), Fraction(1, 2), Fraction(1), Fraction(5, 4)):
                if 't' not in variables and t != 0:
                    continue
                kw = dict(zip(pv(n), pts_))
                if 't' in variables:
                    kw['t'] = t
                if name == 'bernstein_partition':
                    kw = {'t': t}
                if name == 'polynomial2bezier_poly1d' and all(q == 0 for q in pts_[:-1]):
                    continue        # a constant polynomial: outside the documented domain (degree 1..3)
                case = {'what': 'special', 'degree': n, 'identity': name, 'assignment': ai, 't': str(t)}
                acc.case(case, cls='special/deg%d' % n)
                try:
                    same = gridproof.eq_exact(impl(**kw), ref(**kw))
                    err = None
                except Exception as e:
                    same, err = False, '%s: %s' % (type(e).__name__, e)
                if not same:
                    acc.violation('identity_fails_on_degenerate_input', {'helper': name, 'degree': n if n > 3 else 'le3'}, case,
                                  observed=err or repr(gridproof.flatten(impl(**kw)))[:300], expected=repr(gridproof.flatten(ref(**kw)))[:300])


def run_arc_delegation(acc):
    a = Arc(0j, 3 + 1j, 30, 1, 1, 2 + 2j)
    for t in (0.0, 0.25, 0.5, 1.0):
        acc.case({'what': 'arc_delegation', 't': t}, cls='arc_delegation')
        if bezier_point(a, t) != a.point(t):
            acc.violation('arc_delegation', {'helper': 'bezier_point'}, {'what': 'arc'}, observed=bezier_point(a, t), expected=a.point(t))
    h = halve_bezier(a)
    s = a.split(0.5)
    if not (h[0] == s[0] and h[1] == s[1]):
        acc.violation('arc_delegation', {'helper': 'halve_bezier'}, {'what': 'arc'}, observed=repr(h), expected=repr(s))


# ---------------------------------------------------------------- roots

SIMPLE = [0.2, 0.5, 0.8]
BLOCKS = {
    'pair_1e-5': [0.35, 0.35 + 1e-5],
    'pair_1e-7': [0.65, 0.65 + 1e-7],
    'pair_1e-9': [0.35, 0.35 + 1e-9],
    'double': [0.65, 0.65],
    'cplx_near': [complex(0.4, 1e-3), complex(0.4, -1e-3)],
    'cplx_far': [complex(0.6, 2.0), complex(0.6, -2.0)],
    'out_neg': [-0.5],
    'out_1.5': [1.5],
    'out_10': [10.0],
    # one root many orders of magnitude away (a formula that cancels, b*b >> 4ac, loses the small roots)
    'out_1e9': [1.0e9],
    'out_-1e12': [-1.0e12],
    'out_3e15': [3.0e15],
    'zero': [0.0],
    'one': [1.0],
    # a simple in-range root with an out-of-range twin 6e-6 away (closer than the duplicate tolerance)
    'straddle_one': [1.0 - 3e-6, 1.0 + 3e-6],
    'straddle_zero': [3e-6, -3e-6],
}
# in-range members of blocks that must come back exactly once from the 0..1 filters
DEMANDED_IN_BLOCK = {'straddle_one': 1.0 - 3e-6, 'straddle_zero': 3e-6}
_ORIG_ROOTS = np.roots
_ENV = {'perm': None, 'calls': 0, 'cache': None}


def _roots_wrapper(p):
    _ENV['calls'] += 1
    r = _ORIG_ROOTS(p)
    perm = _ENV['perm']
    if perm is not None and len(perm) == len(r):
        base = _ENV['cache']
        if base is None or len(base) != len(r) or _ENV.get('actual'):
            base = r        # what numpy returns for the coefficients AS PASSED (dtype / container matter)
        return base[list(perm)]
    return r


def multisets(maxdeg):
    names = sorted(BLOCKS)
    out = []
    for k in range(1, len(SIMPLE) + 1):
        for S in itertools.combinations(SIMPLE, k):
            for nb in range(0, 4):
                for B in itertools.combinations(names, nb):
                    if 'pair_1e-5' in B and 'pair_1e-9' in B:
                        continue
                    if 'pair_1e-7' in B and 'double' in B:
                        continue
                    if ('straddle_one' in B and 'one' in B) or ('straddle_zero' in B and 'zero' in B):
                        continue
                    roots = list(S)
                    for b in B:
                        roots += BLOCKS[b]
                    far = [b for b in B if b in ('out_1e9', 'out_-1e12', 'out_3e15')]
                    if far and (len(B) > 1 or len(roots) > 3):
                        continue        # one far root next to one or two simple ones: with clusters or at higher degree the float COEFFICIENTS no longer determine the near roots to 1e-6
                    if len(roots) <= maxdeg:
                        out.append((S, B, roots))
    return out


COEFF_FORMS = ['real_ndarray', 'complex_dtype_ndarray', 'list_of_python_floats', 'list_of_python_complex', 'poly1d', 'tuple',
               'times_1e-14', 'times_1e14', 'times_2^-60_as_list']


def coeff_form(c, form):
    """the same real polynomial handed over as the container / dtype a caller may have at hand"""
    if form == 'real_ndarray':
        return np.array(c, dtype=float)
    if form == 'times_1e-14':
        return np.array(c, dtype=float) * 1e-14        # the same roots: a polynomial is only defined up to a factor
    if form == 'times_1e14':
        return np.array(c, dtype=float) * 1e14
    if form == 'times_2^-60_as_list':
        return [float(x) * 2.0 ** -60 for x in c]
    if form == 'complex_dtype_ndarray':
        return np.array(c, dtype=complex)
    if form == 'list_of_python_floats':
        return [float(x) for x in c]
    if form == 'list_of_python_complex':
        return [complex(float(x), 0.0) for x in c]
    if form == 'poly1d':
        return np.poly1d(np.array(c, dtype=float))
    return tuple(float(x) for x in c)


def check_roots(S, B, roots, perm, acc, case):
    """one polynomial, one environment answer (permutation)"""
    coeffs = np.real(np.poly(roots))
    form = COEFF_FORMS[sum(perm) % len(COEFF_FORMS)] if len(perm) else 'real_ndarray'
    if perm == tuple(range(len(perm))):
        form = COEFF_FORMS[(len(S) + 3 * len(B) + len(roots)) % len(COEFF_FORMS)]
    coeffs = coeff_form(coeffs, form)
    _ENV['actual'] = form != 'real_ndarray'
    pristine = [complex(x) for x in (coeffs.coeffs if isinstance(coeffs, np.poly1d) else coeffs)]
    acc.seen('coefficients/' + form)
    results = {
        'polyroots01': outcome(lambda: polyroots01(coeffs)),
        'polyroots_real_01open': outcome(lambda: polyroots(coeffs, realroots=True, condition=lambda r: 0 < r < 1)),
        'polyroots_all': outcome(lambda: polyroots(coeffs)),
        # every combination of the two options, by keyword and by position
        'polyroots_condition_only': outcome(lambda: polyroots(coeffs, condition=lambda r: abs(complex(r).imag) < 1e-7 and 0 < complex(r).real < 1)),
        'polyroots_positional': outcome(lambda: polyroots(coeffs, True, lambda r: 0 < r < 1)),
        'polyroots_real_no_condition': outcome(lambda: polyroots(coeffs, realroots=True)),
        'polyroots_real_no_condition_positional': outcome(lambda: polyroots(coeffs, True)),
        'polyroots_explicit_defaults': outcome(lambda: polyroots(coeffs, realroots=False, condition=lambda r: True)),
    }
    now = [complex(x) for x in (coeffs.coeffs if isinstance(coeffs, np.poly1d) else coeffs)]
    if now != pristine:
        acc.violation('input_modified_in_place', {'fn': 'polyroots', 'form': form}, case, observed=[str(x) for x in now], expected=[str(x) for x in pristine])
    for fn, r in results.items():
        if r[0] != 'ok':
            acc.violation('polyroots_raises', {'fn': fn, 'exc': r[1]}, case, observed=r)
            continue
        got = [complex(x) for x in r[1]]
        for s in S:
            hits = [g for g in got if abs(g - s) <= 1e-6]
            if len(hits) != 1:
                acc.violation('simple_root_lost_or_duplicated',
                              {'fn': fn, 'count': 'lost' if not hits else 'duplicated',
                               'with_cluster': any(b.startswith(('pair', 'double')) for b in B)},
                              case, observed=[core.jz(g) for g in got], expected='%r exactly once' % s,
                              detail='roots=%r perm=%r' % (roots, perm))
        if fn.startswith('polyroots_real_no_condition'):
            # only real values, each near a prescribed real root
            real_all = [x.real for x in map(complex, roots) if abs(x.imag) < 1e-12]
            for g in got:
                if abs(g.imag) > 1e-6 * max(1.0, abs(g.real)) or min([abs(g.real - x) / max(1.0, abs(x)) for x in real_all] + [float('inf')]) > 1e-3:
                    acc.violation('spurious_root', {'fn': fn}, case, observed=[core.jz(g) for g in got], detail='roots=%r perm=%r' % (roots, perm))
                    break
            continue
        if fn not in ('polyroots_all', 'polyroots_explicit_defaults'):
            for b in B:
                if b in DEMANDED_IN_BLOCK:
                    want = DEMANDED_IN_BLOCK[b]
                    hits = [g for g in got if abs(g - want) <= 2e-6]
                    if len(hits) != 1:
                        acc.violation('simple_root_lost_or_duplicated',
                                      {'fn': fn, 'count': 'lost' if not hits else 'duplicated', 'with_cluster': 'out_of_range_twin'},
                                      case, observed=[core.jz(g) for g in got], expected='%r exactly once' % want,
                                      detail='roots=%r perm=%r' % (roots, perm))
            # nothing spurious: every returned value is real, in range, near a prescribed real root
            real_in = [x.real for x in map(complex, roots) if abs(x.imag) < 1e-12]
            for g in got:
                if abs(g.imag) > 1e-6 or not (-1e-9 <= g.real <= 1 + 1e-9) or \
                        min(abs(g.real - x) for x in real_in) > 1e-3:
                    acc.violation('spurious_root', {'fn': fn}, case, observed=[core.jz(g) for g in got],
                                  detail='roots=%r perm=%r' % (roots, perm))
                    break


def run_roots(shard, nshards, maxperm_deg, maxdeg, acc):
    old = np.roots
    np.roots = _roots_wrapper
    try:
        ms = multisets(maxdeg)
        for mi, (S, B, roots) in enumerate(ms):
            if mi % nshards != shard:
                continue
            n = len(roots)
            coeffs = np.real(np.poly(roots))
            base = _ORIG_ROOTS(coeffs)
            _ENV['cache'] = base
            if n <= maxperm_deg:
                perms = itertools.permutations(range(n))
                cls = 'roots/deg%d/all_permutations' % n
            else:
                # beyond the permutation bound: natural order, reversed, and all rotations
                perms = [tuple(range(n)), tuple(reversed(range(n)))] + [tuple(range(k, n)) + tuple(range(k)) for k in range(1, n)]
                cls = 'roots/deg%d/rotations_only' % n
                acc.caps_hit['permutations of %d roots limited to rotations/reversal' % n] += 1
            for perm in perms:
                _ENV['perm'] = perm
                c0 = _ENV['calls']
                case = {'what': 'roots', 'simple': list(S), 'blocks': list(B), 'perm': list(perm)}
                check_roots(S, B, roots, perm, acc, case)
                if _ENV['calls'] == c0:
                    # this polynomial was solved without numpy.roots (a closed form, say): the answer does
                    # not depend on the environment's root order, one execution is all there is
                    acc.case(lambda: case, cls='roots/deg%d/no_environment_call' % n, nontrivial=n > 1)
                    acc.traces += 1
                    break
                acc.case(lambda: case, cls=cls, nontrivial=n > 1)
                acc.traces += 1
    finally:
        np.roots = old
        _ENV['perm'] = None
        _ENV['cache'] = None


# ---------------------------------------------------------------- rational_limit

def run_limits(acc):
    X = np.poly1d([1, 0])
    f1s = [np.poly1d([2, -3, 1]), np.poly1d([1, 4]), np.poly1d([3])]
    g1s = [np.poly1d([1, 0, 5]), np.poly1d([2, -7]), np.poly1d([4])]
    for t0 in (0, 2, -3, 0.5):
        for m in range(0, 4):
            for k in range(0, 4):
                for f1 in f1s:
                    for g1 in g1s:
                        if f1(t0) == 0 or g1(t0) == 0:
                            continue
                        # power-of-two scales keep every evaluation exact; the limit does not depend on them
                        for sc in (1.0, 2.0 ** -40, 2.0 ** 40):
                            f = (f1 * sc) * (X - t0) ** m
                            g = (g1 * sc) * (X - t0) ** k
                            case = {'what': 'limit', 't0': t0, 'm': m, 'k': k, 'f1': list(map(float, f1.coeffs)),
                                    'g1': list(map(float, g1.coeffs)), 'scale': sc}
                            keep_f, keep_g = np.array(f.coeffs, copy=True), np.array(g.coeffs, copy=True)
                            r = outcome(lambda: rational_limit(f, g, t0))
                            rel = 'equal' if m == k else ('f_higher' if m > k else 'g_higher')
                            acc.case(case, cls='limit/' + rel)
                            # the caller's polynomials are inputs: they must come back untouched (they may be real(P) / imag(P)
                            # of a curve's polynomial and share its coefficient array)
                            if not (np.array_equal(keep_f, f.coeffs) and np.array_equal(keep_g, g.coeffs)):
                                acc.violation('input_modified_in_place', {'fn': 'rational_limit'}, case,
                                              observed=[list(map(float, f.coeffs)), list(map(float, g.coeffs))], expected=[list(map(float, keep_f)), list(map(float, keep_g))])
                                f = np.poly1d(keep_f)
                                g = np.poly1d(keep_g)
                            if m < k:
                                if r != ('exc', 'ValueError'):
                                    acc.violation('limit_should_not_exist', {'relation': rel, 'scaled': sc != 1.0}, case, observed=r, expected='ValueError')
                                continue
                            exact = Fraction(0) if m > k else F(float(f1(t0))) / F(float(g1(t0)))
                            if r[0] != 'ok' or abs(float(r[1]) - float(exact)) > 1e-12 * max(1.0, abs(float(exact))):
                                acc.violation('limit_wrong', {'relation': rel, 'scaled': sc != 1.0}, case, observed=r, expected=float(exact))


# ---------------------------------------------------------------- harness interface

def tier_params(tier, seed):
    if tier == 'quick':
        return {'choices': [seed % 3], 'maxperm': 6, 'maxdeg': 7}
    return {'choices': [0, 1, 2], 'maxperm': 8, 'maxdeg': 8}


NROOT_SHARDS = 32


def shards(tier, seed):
    tp = tier_params(tier, seed)
    out = []
    for n in range(8, -1, -1):
        for c in tp['choices']:
            if n >= 6:
                out += [{'what': 'identity', 'degree': n, 'choice': c, 'only': i[0]} for i in identities(n)]
            else:
                out.append({'what': 'identity', 'degree': n, 'choice': c})
    out.sort(key=lambda d: (-(d['degree']), 0 if d.get('only') == 'split_bezier' else 1))
    out += [{'what': 'roots', 'shard': i} for i in range(NROOT_SHARDS)]
    out += [{'what': 'limits'}, {'what': 'arc'}]
    out += [{'what': 'special', 'degree': n} for n in range(0, 9)]
    out += [{'what': 'native', 'degree': n} for n in range(1, 6)]
    out.append({'what': 'zero_root'})
    out.append({'what': 'split_near_ends'})
    return out


def run_shard(desc, tier, seed):
    acc = core.Acc()
    tp = tier_params(tier, seed)
    if desc['what'] == 'identity':
        run_identities(desc['degree'], desc['choice'], acc, only=desc.get('only'))
    elif desc['what'] == 'roots':
        run_roots(desc['shard'], NROOT_SHARDS, tp['maxperm'], tp['maxdeg'], acc)
    elif desc['what'] == 'special':
        run_special(desc['degree'], acc)
    elif desc['what'] == 'native':
        run_native(desc['degree'], acc)
    elif desc['what'] == 'zero_root':
        run_zero_root(acc)
    elif desc['what'] == 'split_near_ends':
        run_split_near_ends(acc)
    elif desc['what'] == 'limits':
        run_limits(acc)
    else:
        run_arc_delegation(acc)
    return acc


def expected_classes(tier):
    out = ['limit/equal', 'limit/f_higher', 'limit/g_higher', 'arc_delegation']
    for n in range(0, 9):
        out.append('exact/deg%d/bezier_point/certified|exact/deg%d/bezier_point/grid_only' % (n, n))
        out.append('exact/deg%d/split_bezier/certified|exact/deg%d/split_bezier/grid_only' % (n, n))
        out.append('exact/deg%d/bezier2polynomial/certified|exact/deg%d/bezier2polynomial/grid_only' % (n, n))
    out += ['native/%s' % f for f in NATIVE_FORMS] + ['coefficients/%s' % f for f in COEFF_FORMS]
    for n in range(1, 7):
        out.append('roots/deg%d/all_permutations|roots/deg%d/no_environment_call' % (n, n))
    return out


def finalize(acc):
    acc.states = sum(v for k, v in acc.classes.items() if str(k).startswith('exact/'))
    acc.transitions = 2 * acc.states + sum(v for k, v in acc.classes.items() if str(k).startswith('roots/'))
    ok = acc.extra.get('certificate_runs_ok', {})
    bad = acc.extra.get('certificate_runs_failed', {})
    acc.extra['all_inputs_certificate'] = {k: (k not in bad) for k in sorted(set(ok) | set(bad))}
    if bad:
        import sys
        sys.stderr.write('NOTE property=%s: no degree certificate for %s - decided on the grid only, not for all inputs\n' % (ID, sorted(bad)))
    # the stated permutation bound is a bound, not a cap on something claimed
    acc.extra['permutation_bound_notes'] = dict(acc.caps_hit)
    acc.caps_hit.clear()


def space(tier, seed):
    tp = tier_params(tier, seed)
    return {'degrees': list(range(9)), 'value_set_choices': tp['choices'],
            'root_multisets': len(multisets(tp['maxdeg'])), 'all_permutations_up_to_n_roots': tp['maxperm'],
            'simple_roots': SIMPLE, 'blocks': {k: [core.jz(x) for x in v] for k, v in BLOCKS.items()}}


# ---------------------------------------------------------------- native number types

NATIVE_TUPLES = [(0, 10, 20, 5, 7, -3), (3, 7, 1, 1, 8, 2), (1, 0, 0, 1, 0, 1), (-2, -1, 4, 9, 9, 0)]
NATIVE_FORMS = ['int', 'float', 'complex', 'np_int64_array', 'np_float_array', 'np_complex_array', 'int_list_mixed_bool', 'Fraction']


def native_form(vals, form):
    if form == 'int':
        return [int(v) for v in vals]
    if form == 'float':
        return [float(v) for v in vals]
    if form == 'complex':
        return [complex(v, -v / 2.0) for v in vals]
    if form == 'np_int64_array':
        return np.array([int(v) for v in vals], dtype=np.int64)
    if form == 'np_float_array':
        return np.array([float(v) for v in vals])
    if form == 'np_complex_array':
        return np.array([complex(v, -v / 2.0) for v in vals])
    if form == 'int_list_mixed_bool':
        return [bool(v) if v in (0, 1) else int(v) for v in vals]
    return [Fraction(int(v)) for v in vals]


ZERO_ROOT_SETS = [[0.0, 0.5], [0.0, 0.3, 2.0], [0.0, -1.0, 0.25], [0.0, 0.5, complex(0.4, 1.0), complex(0.4, -1.0)], [0.0], [0.0, 1.0], [0.0, 1e-3, -1e-3]]


def run_zero_root(acc, only=None):
    """polynomials with the EXACT simple root 0 (constant coefficient exactly 0, coefficients exact): with realroots=True
    and no condition - or a condition that admits it - the root 0 is returned exactly once, like any other real root"""
    for ri, rts in enumerate(ZERO_ROOT_SETS):
        coeffs = np.real(np.poly(rts))
        assert coeffs[-1] == 0
        real = [complex(x).real for x in rts if abs(complex(x).imag) < 1e-12]
        for fn_name, fn in (('realroots_keyword', lambda: polyroots(coeffs, realroots=True)),
                            ('realroots_positional', lambda: polyroots(coeffs, True)),
                            ('realroots_and_closed_condition', lambda: polyroots(coeffs, realroots=True, condition=lambda r: -0.5 <= r <= 0.75)),
                            ('condition_only', lambda: polyroots(coeffs, condition=lambda r: abs(complex(r).imag) < 1e-9 and -0.5 <= complex(r).real <= 0.75)),
                            ('defaults', lambda: polyroots(coeffs)),
                            ('list_input', lambda: polyroots([float(c) for c in coeffs], realroots=True))):
            case = {'what': 'zero_root', 'set': ri, 'call': fn_name}
            if only is not None and only != case:
                continue
            acc.case(case, cls='zero_root/%s' % fn_name)
            r = outcome(fn)
            if r[0] != 'ok':
                acc.violation('polyroots_raises', {'fn': fn_name, 'exc': r[1]}, case, observed=r)
                continue
            got = [complex(x) for x in r[1]]
            want = [x for x in real if 'condition' not in fn_name or -0.5 <= x <= 0.75]
            for w in want:
                hits = [g for g in got if abs(g - w) <= 1e-9]
                if len(hits) != 1:
                    acc.violation('simple_root_lost_or_duplicated', {'fn': fn_name, 'count': 'lost' if not hits else 'duplicated', 'root': 'zero' if w == 0 else 'other'},
                                  case, observed=[core.jz(g) for g in got], expected='%r exactly once' % w)
                    break
            else:
                if fn_name != 'defaults' and len(got) != len(want):
                    acc.violation('spurious_root', {'fn': fn_name}, case, observed=[core.jz(g) for g in got], expected=want)


SPLIT_NEAR_ENDS = [1e-9, 3e-9, 1e-6, 1.0 - 3e-5, 1.0 - 3e-6, 1.0 - 1e-6, 1.0 - 1e-9]


def run_split_near_ends(acc, only=None):
    """split_bezier / bezier_point at parameters close to (not at) 0 and 1: the two sub-curves are those of that
    parameter (exact reference over Q, compared to rounding), not those of the end point next to it"""
    from fractions import Fraction as F_
    for n in range(1, 6):
        for ti, tup in enumerate(NATIVE_TUPLES):
            pts = [complex(tup[i], tup[(i + 2) % len(tup)]) for i in range(n + 1)]
            ex = [GQ.of(q) for q in pts]
            mag = max(abs(q) for q in pts) + 1e-300
            for t in SPLIT_NEAR_ENDS:
                case = {'what': 'split_near_ends', 'degree': n, 'tuple': ti, 't': t}
                if only is not None and only != case:
                    continue
                acc.case(case, cls='split_near_ends/deg%d' % n)
                want = ref_split(ex, F_(t))
                r = outcome(lambda: [list(x) for x in split_bezier(pts, t)])
                ok = r[0] == 'ok' and len(r[1]) == 2 and all(len(a) == len(b) and all(abs(complex(x) - complex(y)) <= 64 * 2.0 ** -52 * mag for x, y in zip(a, b))
                                                            for a, b in zip(r[1], want))
                if not ok:
                    acc.violation('split_differs_near_an_end', {'helper': 'split_bezier', 'degree': 'le3' if n <= 3 else n, 'end': 0 if t < 0.5 else 1}, case,
                                  observed=repr(r)[:300], expected=repr([[complex(x) for x in a] for a in want])[:300])
                rp = outcome(lambda: complex(bezier_point(pts, t)))
                wp = complex(bernstein_eval(ex, F_(t)))
                if rp[0] != 'ok' or not abs(rp[1] - wp) <= 64 * 2.0 ** -52 * mag:
                    acc.violation('split_differs_near_an_end', {'helper': 'bezier_point', 'degree': 'le3' if n <= 3 else n, 'end': 0 if t < 0.5 else 1}, case, observed=rp, expected=wp)


def run_native(n, acc, only=None):
    """the helpers take control points of whatever number type the caller has: Python ints, floats,
    complex, integer / float / complex ndarrays, Fractions.  Same values, every form, against the exact
    evaluation over Q (an integer working array that truncates is only seen with all-integer input)."""
    tuples = [tuple(x[:n + 1]) for x in NATIVE_TUPLES]
    if n <= 3:
        tuples += list(itertools.product((0, 1, 10), repeat=n + 1))
    ts = [0.25, 0.5, 1.0 / 3.0, 0.7]
    for vals in tuples:
        for form in NATIVE_FORMS:
            pts = native_form(vals, form)
            ex = [GQ.of(complex(q)) for q in (pts.tolist() if hasattr(pts, 'tolist') else pts)] if form != 'Fraction' else \
                [GQ(q, 0) for q in pts]
            for t in ts:
                tq = F(t)
                want_pt = complex(bernstein_eval(ex, tq))
                want_split = [[complex(q) for q in side] for side in ref_split(ex, tq)]
                want_poly = [complex(q) for q in ref_power_coeffs(ex)]
                mag = max(1.0, max(abs(complex(q)) for q in ex))
                tests = [('bezier_point', lambda: complex(bezier_point(pts, t)), want_pt),
                         ('split_bezier', lambda: [[complex(q) for q in side] for side in split_bezier(pts, t)], want_split),
                         ('bezier2polynomial', lambda: [complex(q) for q in bezier2polynomial(pts)], want_poly)]
                if t == 0.5:
                    tests.append(('halve_bezier', lambda: [[complex(q) for q in side] for side in halve_bezier(pts)], want_split))
                if t == ts[0] and form in ('float', 'complex', 'np_float_array', 'int'):
                    # the parameter as an ndarray of many values at once (and the array must be left untouched)
                    tarr = np.array(ts)
                    keep = tarr.copy()
                    want_arr = [complex(bernstein_eval(ex, F(x))) for x in ts]
                    tests.append(('bezier_point_ndarray_t', lambda: [complex(q) for q in np.asarray(bezier_point(pts, tarr)).ravel()] +
                                  [complex(q) for q in (tarr - keep)], want_arr + [0j] * len(ts)))
                    want_b = [[complex(math.comb(n, k) * F(x) ** k * (1 - F(x)) ** (n - k)) for x in ts] for k in range(n + 1)]
                    tests.append(('bernstein_ndarray_t', lambda: [[complex(q) for q in np.asarray(b).ravel()] for b in bernstein(n, tarr)], want_b))
                for name, fn, want in tests:
                    if name == 'bezier2polynomial' and t != ts[0]:
                        continue
                    case = {'what': 'native', 'degree': n, 'values': list(vals), 'form': form, 't': t, 'helper': name}
                    if only and (only['values'] != list(vals) or only['form'] != form or only['t'] != t or only['helper'] != name):
                        continue
                    acc.case(case, cls='native/%s' % form)
                    r = outcome(fn)
                    ok = r[0] == 'ok'
                    if ok:
                        a, b = gridproof.flatten(r[1]), gridproof.flatten(want)
                        ok = len(a) == len(b) and all(abs(complex(x) - complex(y)) <= 1e-12 * mag for x, y in zip(a, b))
                    if not ok:
                        acc.violation('wrong_for_native_number_type', {'helper': name, 'form': form}, case,
                                      observed=repr(r)[:300], expected=repr(want)[:300])


def replay(case):
    acc = core.ReplayAcc()
    if case['what'] == 'native':
        run_native(case['degree'], acc, only=case)
        return acc.vlist
    if case['what'] == 'zero_root':
        run_zero_root(acc, only=case)
        return acc.vlist
    if case['what'] == 'split_near_ends':
        run_split_near_ends(acc, only=case)
        return acc.vlist
    if case['what'] == 'identity':
        run_identities(case['degree'], case['choice'], acc, only=case['identity'])
    elif case['what'] == 'roots':
        roots = list(case['simple'])
        for b in case['blocks']:
            roots += BLOCKS[b]
        old = np.roots
        np.roots = _roots_wrapper
        try:
            coeffs = np.real(np.poly(roots))
            _ENV['cache'] = _ORIG_ROOTS(coeffs)
            _ENV['perm'] = tuple(case['perm'])
            check_roots(tuple(case['simple']), tuple(case['blocks']), roots, tuple(case['perm']), acc, case)
        finally:
            np.roots = old
            _ENV['perm'] = None
            _ENV['cache'] = None
    elif case['what'] == 'special':
        run_special(case['degree'], acc, only=case['identity'])
        acc.vlist = [v for v in acc.vlist if v['case'] == case]
    elif case['what'] == 'limit':
        run_limits(acc)
        acc.vlist = [v for v in acc.vlist if v['case'] == case]
    else:
        run_arc_delegation(acc)
    return acc.vlist
