"""C16  Observations after any mutation history equal those of a fresh object.

Graph mode.  Three explorations per configuration (scipy / fallback):

 * path:   BFS to a fixpoint over ALL histories of mutations and cache-filling
           queries on Paths of at most LMAX segments over a small segment pool.
           A state is the real Path object; the key is the canonical
           serialisation of its complete instance state (vars() of the Path and
           of every segment), so two states with the same key are the same
           object graph by value and have the same futures.
 * segment: depth-bounded BFS over histories of control-point reassignment,
           length queries with different tolerances and reversed() copies.
 * hash/eq: over parsed variants and everything reached above, a == b must
           imply hash(a) == hash(b).

Oracle (differential, no hand-written expected values): a Path constructed
freshly from copies of the current segment objects, and a Path constructed
from segments rebuilt by value.
"""
import copy
import math

import numpy as np

from mc import core
from mc.enc import seg2j, j2seg, path2j, outcome

import svgpathtools
import svgpathtools.path as sp
from svgpathtools import Path, Line, QuadraticBezier, CubicBezier, Arc, parse_path

ID = 'C16'
LEVEL = 'model_checking'
PARALLEL = 'self'
RULE = ('explicit-state BFS over mutation/query histories of real Path and segment objects; '
        'a case is one distinct reachable object state (canonical vars() serialisation); it is '
        'non-trivial when at least one cache field of the Path or a segment is populated or the '
        'path has been mutated (every state except the roots)')
ASSUMPTIONS = [
    'segment pool and LMAX bound the path-level state space; fixpoint covers histories of every length over that alphabet only',
    'coarse/fine tolerances are distinguishable only in the fallback (no-scipy) configuration',
    'deepcopy of a Path reproduces its observable state (self-tested on every state: key(copy) == key(original))',
]

S = 2.0 ** -13          # coordinate scale: keeps the fallback length() with error=1e-12 cheap
COARSE = 0.05 * S       # coarse tolerance (much larger than default 1e-12)
TOL = 1e-9 * S          # comparison tolerance; stale-cache effects are >= 1e-6*S by construction


def pool(tier):
    p = [
        ['L', [0.0, 0.0], [3 * S, 4 * S]],
        ['C', [3 * S, 4 * S], [5 * S, 9 * S], [10 * S, 6 * S], [10 * S, 1 * S]],
        ['Q', [10 * S, 1 * S], [13 * S, -4 * S], [6 * S, -4 * S]],
    ]
    if tier == 'thorough':
        p.append(['A', [6 * S, -4 * S], [3 * S, 2 * S], 30.0, False, True, [1 * S, -6 * S]])
    return p


SYM_CUBIC = ['C', [0.0, 0.0], [1 * S, 1 * S], [2 * S, -1 * S], [3 * S, 0.0]]
ZS = complex(-1 * S, -2 * S)
ZE = complex(8 * S, 9 * S)


def lmax(tier):
    # tier names used internally: 'quick' (LMAX 2, pool 3), 'thorough' (LMAX 2, pool 4 incl. an Arc),
    # 'deep' (LMAX 3, pool 3; scipy configuration only) - the thorough command runs the last two
    return 3 if tier == 'deep' else 2


# ---------------------------------------------------------------- state keys

def obj_state(o):
    d = {}
    for k, v in sorted(vars(o).items()):
        d[k] = v
    return [type(o).__name__, d]


_FRESH = {}


def fresh_len(s, args):
    """length of a by-value rebuilt copy of segment s (memoised per value,
    tolerance and configuration)."""
    k = (core.canon(seg2j(s)), args, sp._quad_available)
    if k not in _FRESH:
        f = rebuild_by_value(s)
        _FRESH[k] = f.length() if args is None else f.length(error=args[0], min_depth=args[1])
    return _FRESH[k]


ARGSETS = (None, (COARSE, 5))
DEFINING = {'start', 'end', 'control', 'control1', 'control2', 'radius', 'rotation', 'large_arc',
            'sweep', 'autoscale_radius'}
DERIVED_ARC = {'phi', 'rot_matrix', 'center', 'theta', 'delta'}


def tag_value(v, candidates):
    """abstract a cached float: None / index of the fresh candidate it equals / 'stale'"""
    if v is None:
        return None
    for name, c in candidates:
        if c is not None and abs(v - c) <= TOL:
            return name
    return 'stale'


def seg_abstract(s):
    """Defining attributes by value; cache attributes abstracted to
    empty / valid(for which tolerance) / stale.  Unknown attributes are kept raw
    (over-fine is safe)."""
    out = {}
    for k, v in sorted(vars(s).items()):
        if k in DEFINING or k in DERIVED_ARC:
            out[k] = v
        elif k == '_length_info' and isinstance(v, dict):
            if v.get('length') is None:
                out[k] = 'empty'
            elif v.get('bpoints') != tuple(s.bpoints()):
                out[k] = 'stale-bpoints'
            else:
                out[k] = ['valid', v.get('error'), v.get('min_depth'),
                          tag_value(v['length'], [(str(a), fresh_len(s, a)) for a in ARGSETS])]
        elif k == 'segment_length_hash':
            out[k] = None if v is None else ('valid' if v == hash(s) else 'stale')
        elif k == 'segment_length':
            out[k] = tag_value(v, [(str(a), fresh_len(s, a)) for a in ARGSETS])
        else:
            out[k] = v
    return [type(s).__name__, out]


def path_key(p):
    """Canonical state key.  Argument for merging: cache fields are compared
    with what a by-value fresh object computes; all stale values of one field are
    merged into 'stale' (any stale value is observably wrong - the pool's lengths
    are pairwise different - so the representative exposes the same reads),
    everything else (segment values, which tolerance a cache is valid for,
    unknown attributes) is kept by value."""
    segs = list(p._segments)
    d = {}
    for k, v in sorted(vars(p).items()):
        if k == '_segments':
            continue
        if k == '_length':
            cands = [(str(a), sum(fresh_len(s, a) for s in segs)) for a in ARGSETS] if segs else [('None', 0)]
            d[k] = tag_value(v, cands)
        elif k == '_lengths':
            if v is None:
                d[k] = None
            elif len(v) != len(segs):
                d[k] = 'stale-len'
            else:
                tag = 'stale'
                for a in ARGSETS:
                    ls = [fresh_len(s, a) for s in segs]
                    tot = sum(ls)
                    if all(abs(x - (l / tot if tot else l)) <= 1e-9 for x, l in zip(v, ls)):
                        tag = str(a)
                        break
                d[k] = tag
        elif k == '_start':
            d[k] = None if v is None else ('ok' if segs and v == segs[0].start else 'stale')
        elif k == '_end':
            d[k] = None if v is None else ('ok' if segs and v == segs[-1].end else 'stale')
        else:
            d[k] = v
    # which positions hold the very same segment OBJECT (an edit through one position shows through the other)
    alias = [min(j for j in range(len(segs)) if segs[j] is segs[i]) for i in range(len(segs))]
    return core.canon([d, [seg_abstract(s) for s in segs], alias])


FINE = (1e-15, 9)


def legit_length(a, segs, args):
    """A length answer is legitimate when every segment contributed either what
    a fresh segment returns for these tolerances or something at least as close
    to the true length: |a - sum(truth_i)| <= sum |fresh_i - truth_i|."""
    truth = [fresh_len(s, FINE) for s in segs]
    fr = [fresh_len(s, args) for s in segs]
    bound = sum(abs(f - t) for f, t in zip(fr, truth))
    try:
        return abs(float(a) - sum(truth)) <= bound * (1 + 1e-9) + TOL
    except (TypeError, ValueError):
        return False        # not a number at all


def rebuild_by_value(s):
    if isinstance(s, Arc):
        return copy.deepcopy(s)
    return j2seg(seg2j(s))


# ---------------------------------------------------------------- operations

VARIANTS = ['main', 'close', 'samehash', 'alias', 'depth']


def path_ops(n, tier, variant='main'):
    """variant 'main': the full mutation / query alphabet.  The others are small alphabets around ONE extra
    mechanism each (kept out of 'main' so that its fixpoint stays reachable): 'close' - the path closed and
    opened through its own setters; 'samehash' - values that hash alike (-1, -2); 'alias' - one segment
    object at two positions."""
    if variant != 'main':
        return variant_ops(n, tier, variant)
    P = range(len(pool(tier)))
    L = lmax(tier)
    ops = []
    for i in range(n):
        for k in P:
            ops.append(['set', i, k])
    if n < L:
        for i in range(n + 1):
            for k in P:
                ops.append(['insert', i, k])
        if n:
            # the same positions addressed from the end (list semantics: insert(-n) is a front insertion)
            ops.append(['insert', -n, 1])
            ops.append(['insert', -1, 0])
            ops.append(['insert', n + 3, 2])
        for k in P:
            ops.append(['append', k])
        for i in range(n):
            ops.append(['slice_grow', i, 0, 1])
            ops.append(['slice_grow', i, 2, 1])
    if n + 2 <= L:
        ops.append(['extend', 1, 2])
        ops.append(['extend', 0, 1])
    for i in range(n - 1):
        for k in P:
            ops.append(['slice_shrink', i, k])
    for i in range(n):
        ops.append(['del', i])
    if n:
        ops += [['set', -1, 0], ['set', -n, 2], ['del', -1], ['del', -n]]
    if n:
        ops += [['pop'], ['start=', 0], ['end=', 0], ['start=', 1], ['end=', 1]]
    if n >= 2:
        ops += [['reverse'], ['delslice', 0, 2]]
    if n:
        ops += [['q_length'], ['q_length_coarse'], ['q_length_sub'], ['q_point'], ['q_T2t'],
                ['q_start'], ['q_end'], ['q_all']]
    return ops


def variant_ops(n, tier, variant):
    L = 3 if (variant == 'alias' and tier != 'quick') else 2
    ops = []
    grow = [['append', 0], ['append', 1]] if n < L else []
    base = ([['set', n - 1, 1], ['set', 0, 0], ['del', 0], ['pop']] if n else []) + grow
    q = [['q_all'], ['q_length']] if n else []
    if variant == 'close':
        return base + ([['start=', 0], ['end=', 0], ['end=start'], ['start=end']] if n else []) + q
    if variant == 'samehash':
        return base + ([['start=', 2], ['start=', 3], ['end=', 2], ['end=', 3], ['set_samehash', 0, 2], ['set_samehash', 0, 3]] if n else []) + q
    if variant == 'depth':
        # a point-symmetric S-shaped cubic: the fallback recursion stops at once for min_depth=0 (its midpoint
        # lies on the chord), so a length cached for (tiny error, min_depth 0) is NOT good enough for the defaults
        return base + ([['set_sym', 0]] if n else []) + ([['append_sym']] if n < L else []) + \
            ([['q_all'], ['q_length'], ['q_length_fine_shallow'], ['q_length_coarse']] if n else [])
    if variant == 'alias':
        al = []
        if n and n < L:
            al += [['append_alias', 0], ['insert_alias', 0, n - 1]]
        if n >= 2:
            al += [['set_alias', n - 1, 0], ['set_alias', 0, n - 1]]
        return base + al + ([['start=', 0], ['end=', 0], ['start=', 1], ['reverse']] if n else []) + q
    raise ValueError(variant)


def apply_path_op(p, op, tier):
    """Apply one operation of the alphabet through the Path's own interface.
    Returns the outcome (for queries) or None."""
    PL = pool(tier)
    mk = lambda k: j2seg(PL[k])
    o = op[0]
    if o == 'set':
        p[op[1]] = mk(op[2])
    elif o == 'insert':
        p.insert(op[1], mk(op[2]))
    elif o == 'append':
        p.append(mk(op[1]))
    elif o == 'extend':
        p.extend([mk(op[1]), mk(op[2])])
    elif o == 'slice_grow':
        p[op[1]:op[1] + 1] = [mk(op[2]), mk(op[3])]
    elif o == 'slice_shrink':
        p[op[1]:op[1] + 2] = [mk(op[2])]
    elif o == 'del':
        del p[op[1]]
    elif o == 'delslice':
        del p[op[1]:op[2]]
    elif o == 'pop':
        p.pop()
    elif o == 'reverse':
        p.reverse()
    elif o == 'append_sym':
        p.append(j2seg(SYM_CUBIC))
    elif o == 'set_sym':
        p[op[1]] = j2seg(SYM_CUBIC)
    elif o == 'q_length_fine_shallow':
        return outcome(lambda: p.length(error=1e-13, min_depth=0))
    elif o == 'append_alias':
        p.append(p[op[1]])
    elif o == 'insert_alias':
        p.insert(op[1], p[op[2]])
    elif o == 'set_alias':
        p[op[1]] = p[op[2]]
    elif o == 'end=start':
        p.end = p.start
    elif o == 'start=end':
        p.start = p.end
    elif o == 'start=' and op[1] >= 2:
        p.start = complex(-1.0, 0.0) if op[1] == 2 else complex(-2.0, 0.0)
    elif o == 'end=' and op[1] >= 2:
        p.end = complex(3.0, -1.0) if op[1] == 2 else complex(3.0, -2.0)
    elif o == 'set_samehash':
        p[op[1]] = Line(complex(-1.0 if op[2] == 2 else -2.0, 0.5), complex(1.0, 0.25))
    elif o == 'start=':
        p.start = ZS if op[1] == 0 else complex(*PL[0][1])
    elif o == 'end=':
        p.end = ZE if op[1] == 0 else complex(*PL[0][2])
    elif o == 'q_length':
        return outcome(lambda: p.length())
    elif o == 'q_length_coarse':
        return outcome(lambda: p.length(error=COARSE, min_depth=5))
    elif o == 'q_length_sub':
        return outcome(lambda: p.length(0.2, 0.7))
    elif o == 'q_point':
        return outcome(lambda: p.point(0.3))
    elif o == 'q_T2t':
        return outcome(lambda: p.T2t(0.3))
    elif o == 'q_start':
        return outcome(lambda: p.start)
    elif o == 'q_end':
        return outcome(lambda: p.end)
    elif o == 'q_all':
        # every public query once, on the object itself (fills whatever cache any of them keeps)
        return ('ok', [(n, outcome(lambda: f(p))) for n, f in QUERY_FNS if n != 'length'])
    else:
        raise ValueError(op)
    return None


QUERY_FNS = [
    ('len', lambda p: len(p)),
    ('start', lambda p: p.start),
    ('end', lambda p: p.end),
    ('length', lambda p: p.length()),
    ('point(0.3)', lambda p: p.point(0.3)),
    ('point(0)', lambda p: p.point(0)),
    ('point(1)', lambda p: p.point(1)),
    ('point(0.75)', lambda p: p.point(0.75)),
    ('T2t(0.3)', lambda p: p.T2t(0.3)),
    ('length(0.2,0.7)', lambda p: p.length(0.2, 0.7)),
    ('bbox', lambda p: p.bbox()),
    ('d', lambda p: p.d()),
    ('iscontinuous', lambda p: p.iscontinuous()),
    ('radialrange', lambda p: p.radialrange(complex(2 * S, 11 * S)) if not any(isinstance(x, Arc) for x in p) else None),
    ('unit_tangent', lambda p: p.unit_tangent(0.3)),
    ('continuous_subpaths', lambda p: [len(x) for x in p.continuous_subpaths()]),
    ('isclosed', lambda p: p.isclosed() if p.iscontinuous() else None),
    ('joints', lambda p: [(a.end, b.start) for a, b in p.joints()]),
    ('intersect_line', lambda p: sorted((round(float(T1), 9), round(float(T2), 9)) for (T1, _, _), (T2, _, _) in
                                        p.intersect(Path(Line(complex(-3 * S, 2.1 * S), complex(14 * S, 1.3 * S))))) if not any(isinstance(x, Arc) for x in p) else None),
    ('scaled.d', lambda p: p.scaled(3.0).d() if not any(isinstance(x, Arc) for x in p) else None),
]


def close(a, b, tol=TOL):
    """structural comparison with numeric tolerance"""
    if isinstance(a, str) or isinstance(b, str):
        return a == b
    if isinstance(a, (tuple, list)) and isinstance(b, (tuple, list)):
        return len(a) == len(b) and all(close(x, y, tol) for x, y in zip(a, b))
    if isinstance(a, np.bool_):
        a = bool(a)
    if isinstance(b, np.bool_):
        b = bool(b)
    if a is None or b is None or isinstance(a, bool) or isinstance(b, bool):
        return a == b and type(a) == type(b) or (a is None and b is None)
    try:
        if a == b:
            return True
        d = abs(complex(a) - complex(b))
    except TypeError:
        return a == b
    if d != d:
        return (a != a) and (b != b)
    return d <= tol


def tol_for(qname):
    # T2t returns a dimensionless parameter; everything else scales with S
    return 1e-9 if 'T2t' in qname else TOL


def same_outcome(x, y, tol=TOL):
    if x[0] != y[0]:
        return False
    if x[0] == 'exc':
        return x[1] == y[1]
    return close(x[1], y[1], tol)


def cfg_name(cfg):
    return 'scipy' if cfg else 'fallback'


def observe(p):
    return [(n, outcome(lambda: f(p))) for n, f in QUERY_FNS]


def mutated_features(hist):
    """abstract features of a history for the signature: which mutation came
    last before the failing observation, and which cache-filling query was
    made before it."""
    last_mut = None
    for op in hist:
        if not op[0].startswith('q_'):
            last_mut = op[0]
    # queries that happened before the last mutation
    qs = []
    seen_mut = False
    for op in reversed(hist):
        if not op[0].startswith('q_'):
            seen_mut = True
        elif seen_mut:
            qs.append(op[0])
    return last_mut, sorted(set(qs))


def inspect_path(tier, cfg, variant='main'):
    def inspect(p, hist, acc):
        k0 = path_key(p)
        p1 = copy.deepcopy(p)
        if path_key(p1) != k0:
            raise AssertionError('deepcopy does not reproduce the state key')
        p2 = copy.deepcopy(p)
        f_same = Path(*p2._segments)
        f_val = Path(*[rebuild_by_value(s) for s in p])
        populated = any(v is not None for kk, v in vars(p).items() if kk in ('_length', '_lengths'))
        acc.case(lambda: {'config': cfg_name(cfg), 'history': hist, 'segments': path2j(p)},
                 cls='path/%s/len%d/%s' % (cfg_name(cfg), len(p), 'cached' if populated else 'nocache') if variant == 'main' else 'path_%s/%s' % (variant, cfg_name(cfg)),
                 nontrivial=bool(hist))
        acc.traces += 1
        # equality must not depend on what either side has cached: compare the untouched copy with a
        # fresh path that has answered length() with default tolerances
        p0 = copy.deepcopy(p)
        f_len = Path(*[rebuild_by_value(s) for s in p])
        outcome(lambda: f_len.length())
        e0 = outcome(lambda: (p0 == f_len, f_len == p0, p0 != f_len))
        if e0 != ('ok', (True, True, False)):
            acc.violation('path_not_equal_to_fresh', {'config': cfg_name(cfg), 'fresh_has_cached_length': True},
                          {'level': 'path', 'tier': tier, 'ops': variant, 'config': cfg, 'history': hist},
                          observed=e0, expected=('ok', (True, True, False)))
        o1 = observe(p1)
        for oname, fresh in (('fresh_same_segments', f_same), ('fresh_by_value', f_val)):
            of = observe(fresh)
            for (qn, a), (_, b) in zip(o1, of):
                if not same_outcome(a, b, tol_for(qn)):
                    last_mut, qs = mutated_features(hist)
                    acc.violation('path_query_differs_from_fresh',
                                  {'query': qn.split('(')[0], 'oracle': oname, 'config': cfg_name(cfg),
                                   'last_mutation': last_mut, 'queries_before_it': qs},
                                  {'level': 'path', 'tier': tier, 'ops': variant, 'config': cfg, 'history': hist},
                                  observed=a, expected=b,
                                  detail='query %s after history %s' % (qn, hist))
                    break
        # eq / hash against the value-fresh path
        eq = outcome(lambda: (p1 == f_val, p1 != f_val))
        if eq != ('ok', (True, False)):
            acc.violation('path_not_equal_to_fresh', {'config': cfg_name(cfg)},
                          {'level': 'path', 'tier': tier, 'ops': variant, 'config': cfg, 'history': hist},
                          observed=eq, expected=('ok', (True, False)))
        else:
            hh = outcome(lambda: hash(p1) == hash(f_val))
            if hh != ('ok', True):
                acc.violation('eq_implies_hash', {'kind': 'Path', 'how': 'mutation history', 'config': cfg_name(cfg)},
                              {'level': 'path', 'tier': tier, 'ops': variant, 'config': cfg, 'history': hist},
                              observed=hh, expected=('ok', True))
    return inspect


def successors_path(tier, cfg, variant='main'):
    def succ(p, hist, acc):
        for op in path_ops(len(p), tier, variant):
            q = copy.deepcopy(p)
            if op[0].startswith('q_'):
                # transition check: the query's own answer vs a fresh path by value
                f_val = Path(*[rebuild_by_value(s) for s in q])
                a = apply_path_op(q, op, tier)
                b = apply_path_op(f_val, op, tier)
                if op[0] == 'q_all':
                    ok = all(same_outcome(x[1], y[1], tol_for(x[0])) for x, y in zip(a[1], b[1]))
                else:
                    ok = same_outcome(a, b, tol_for(op[0]))
                if not ok and op[0] == 'q_length_coarse' and a[0] == b[0] == 'ok':
                    # cached finer per-segment values are legitimate answers to a coarse request
                    ok = legit_length(a[1], list(p), (COARSE, 5))
                if not ok:
                    last_mut, qs = mutated_features(hist + [op])
                    acc.violation('path_query_differs_from_fresh',
                                  {'query': op[0], 'oracle': 'fresh_by_value', 'config': cfg_name(cfg),
                                   'last_mutation': last_mut, 'queries_before_it': qs},
                                  {'level': 'path', 'tier': tier, 'ops': variant, 'config': cfg, 'history': hist + [op],
                                   'transition': True},
                                  observed=a, expected=b, detail='transition query %s' % op)
            else:
                r = outcome(lambda: apply_path_op(q, op, tier))
                if r[0] == 'exc':
                    acc.violation('mutation_raises', {'op': op[0], 'exc': r[1]},
                                  {'level': 'path', 'tier': tier, 'ops': variant, 'config': cfg, 'history': hist + [op]},
                                  observed=r, expected='no exception')
                    continue
            yield op, q
    return succ


# ---------------------------------------------------------------- segment level

SEG_SPECS = [
    ['L', [0.0, 0.0], [3 * S, 4 * S]],
    ['Q', [10 * S, 1 * S], [13 * S, -4 * S], [6 * S, -4 * S]],
    ['C', [3 * S, 4 * S], [5 * S, 9 * S], [10 * S, 6 * S], [10 * S, 1 * S]],
]
SEG_LABELLED = [(sp_[0], sp_) for sp_ in SEG_SPECS] + [('Csym', SYM_CUBIC)]
ATTRS = {'L': ['start', 'end'], 'Q': ['start', 'control', 'end'],
         'C': ['start', 'control1', 'control2', 'end']}
ALT = complex(2 * S, -7 * S)

SEG_QUERIES = [
    ['all'],
    ['length'],
    ['length', 1e-13, 0],
    ['length', COARSE, 1],
    ['length', COARSE, 5],
    ['length', 1e-15, 7],
    ['length_sub'],
]


def seg_ops(state):
    ops = []
    for who in range(len(state)):
        s = state[who]
        kind = {Line: 'L', QuadraticBezier: 'Q', CubicBezier: 'C'}[type(s)]
        for a in ATTRS[kind]:
            ops.append(['assign', who, a, 'alt'])
            ops.append(['assign', who, a, 'orig'])
        for q in SEG_QUERIES:
            ops.append(['q', who] + q)
    if len(state) == 1:
        ops.append(['reversed'])
        ops.append(['copied'])
    return ops


def seg_query(s, q):
    if q[0] == 'all':
        return ('ok', [x for x in seg_observe(s) if x[0] != 'length'])
    if q[0] == 'length' and len(q) == 1:
        return outcome(lambda: s.length())
    if q[0] == 'length':
        return outcome(lambda: s.length(error=q[1], min_depth=q[2]))
    if q[0] == 'length_sub':
        return outcome(lambda: s.length(0.25, 0.75))
    raise ValueError(q)


def seg_key(state):
    alias = False
    if len(state) == 2:
        da, db = vars(state[0]), vars(state[1])
        alias = any(isinstance(da[k], dict) and da[k] is db.get(k) for k in da)
    return core.canon([[obj_state(s) for s in state], alias])


_TRUTH = {}


def seg_truth(s):
    k = core.canon(seg2j(s))
    if k not in _TRUTH:
        f = rebuild_by_value(s)
        _TRUTH[k] = f.length(error=1e-15, min_depth=10)
    return _TRUTH[k]


def seg_observe(s):
    z = complex(2 * S, 11 * S)
    return [('length', outcome(lambda: s.length())),
            ('point', outcome(lambda: s.point(0.3))),
            ('bpoints', outcome(lambda: tuple(s.bpoints()))),
            ('bbox', outcome(lambda: s.bbox())),
            ('length_sub', outcome(lambda: s.length(0.25, 0.75))),
            ('poly', outcome(lambda: s.poly()(0.3))),
            ('poly_coeffs', outcome(lambda: tuple(s.poly(return_coeffs=True)))),
            ('points', outcome(lambda: tuple(s.points([0.3, 0.6])))),
            ('derivative', outcome(lambda: s.derivative(0.3))),
            ('unit_tangent', outcome(lambda: s.unit_tangent(0.3))),
            ('radialrange', outcome(lambda: s.radialrange(z))),
            ('split', outcome(lambda: tuple(tuple(x.bpoints()) for x in s.split(0.4)))),
            ('reversed', outcome(lambda: tuple(s.reversed().bpoints())))]


def seg_sig(hist, who):
    # abstract features: kinds of ops in history, in order of first appearance
    feats = []
    for op in hist:
        f = op[0] if op[0] != 'q' else 'q_' + ('all' if op[2] == 'all' else 'default' if len(op) == 3 else
                                               ('sub' if op[2] == 'length_sub' else
                                                ('coarse' if op[3] == COARSE else 'fine')))
        if f not in feats:
            feats.append(f)
    return feats


def inspect_seg(cfg, spec_kind):
    def inspect(state, hist, acc):
        st = copy.deepcopy(state)
        acc.case(lambda: {'config': cfg_name(cfg), 'history': hist, 'segments': [seg2j(s) for s in state]},
                 cls='segment/%s/%s/%d' % (cfg_name(cfg), spec_kind, len(state)), nontrivial=bool(hist))
        acc.traces += 1
        for who, s in enumerate(st):
            fresh = rebuild_by_value(s)
            oa, ob = seg_observe(s), seg_observe(fresh)
            for (qn, a), (_, b) in zip(oa, ob):
                ok = same_outcome(a, b, 1e-9 if qn == 'ilength' else TOL)
                if not ok and qn == 'length' and a[0] == b[0] == 'ok':
                    truth = seg_truth(s)
                    ok = abs(a[1] - truth) <= abs(b[1] - truth) * (1 + 1e-9) + TOL
                if not ok:
                    acc.violation('segment_query_differs_from_fresh',
                                  {'query': qn, 'kind': spec_kind, 'config': cfg_name(cfg),
                                   'ops': seg_sig(hist, who), 'object': ('shallow_copy' if any(o_[0] == 'copied' for o_ in hist) else 'reversed_copy') if who else 'original'},
                                  {'level': 'segment', 'config': cfg, 'kind': spec_kind, 'history': hist},
                                  observed=a, expected=b, detail='object %d after %s' % (who, hist))
                    break
            e = outcome(lambda: (s == fresh, hash(s) == hash(fresh)))
            if e != ('ok', (True, True)):
                acc.violation('eq_implies_hash', {'kind': spec_kind, 'how': 'segment history'},
                              {'level': 'segment', 'config': cfg, 'kind': spec_kind, 'history': hist},
                              observed=e, expected=('ok', (True, True)))
    return inspect


def successors_seg(cfg, spec, label=None):
    label = label or spec[0]
    orig = {a: getattr(j2seg(spec), a) for a in ATTRS[spec[0]]}

    def succ(state, hist, acc):
        for op in seg_ops(state):
            st = copy.deepcopy(state)
            if op[0] == 'assign':
                setattr(st[op[1]], op[2], ALT if op[3] == 'alt' else orig[op[2]])
            elif op[0] == 'reversed':
                st.append(st[0].reversed())
            elif op[0] == 'copied':
                st.append(copy.copy(st[0]))        # a shallow copy: whatever mutable bookkeeping the segment carries is shared
            elif op[0] == 'q':
                s = st[op[1]]
                fresh = rebuild_by_value(s)
                a, b = seg_query(s, op[2:]), seg_query(fresh, op[2:])
                if op[2] == 'all':
                    ok = all(same_outcome(x[1], y[1], 1e-9 if x[0] == 'ilength' else TOL) for x, y in zip(a[1], b[1]))
                else:
                    ok = same_outcome(a, b)
                if not ok and a[0] == b[0] == 'ok' and op[2] == 'length':
                    truth = seg_truth(s)
                    ok = abs(a[1] - truth) <= abs(b[1] - truth) * (1 + 1e-9) + TOL
                if not ok:
                    acc.violation('segment_query_differs_from_fresh',
                                  {'query': 'transition_' + seg_sig([op], 0)[0], 'kind': label,
                                   'config': cfg_name(cfg), 'ops': seg_sig(hist, op[1]),
                                   'object': ('shallow_copy' if any(o_[0] == 'copied' for o_ in hist) else 'reversed_copy') if op[1] else 'original'},
                                  {'level': 'segment', 'config': cfg, 'kind': label, 'history': hist + [op],
                                   'transition': True},
                                  observed=a, expected=b, detail='transition %s after %s' % (op, hist))
            yield op, st
    return succ


# ---------------------------------------------------------------- hash / eq over parsed variants

def hash_eq_cases():
    ds = ['M0,0 L1,1 L0,0', 'M0,0 L1,1 Z', 'M0,0 L1,1 L0,0 Z', 'M0,0 L1,1 0,0',
          'M 0 0 L 1 1 L 0 0', 'm0,0 l1,1 l-1,-1', 'm0,0 l1,1 z',
          'M0,0 C1,1 2,1 3,0', 'M0,0 c1,1 2,1 3,0', 'M0,0 C1,1 2,1 3,0 Z', 'M0,0 C1,1 2,1 3,0 L0,0',
          'M0,0 Q1,1 2,0', 'M0,0 q1,1 2,0', 'M0,0 A2,1 0 0,1 3,0', 'M0,0 a2,1 0 0 1 3,0',
          'M0,0 A2,1 0 0,1 3,0 Z', 'M0,0 A2,1 0 0,1 3,0 L0,0', 'M0,0 L1,1', 'M0,0 L1,1 M0,0 L1,1']
    return ds


def run_hash_eq(acc):
    ds = hash_eq_cases()
    objs = [(d, parse_path(d)) for d in ds]
    # also segment objects with int vs float vs complex coordinates
    segs = [('Line(0,1)', Line(0, 1)), ('Line(0j,1+0j)', Line(0j, 1 + 0j)), ('Line(0.0,1.0)', Line(0.0, 1.0)),
            ('Q(0,1,2)', QuadraticBezier(0, 1, 2)), ('Q(0j,1.0,2+0j)', QuadraticBezier(0j, 1.0, 2 + 0j)),
            ('C(0,1,2,3)', CubicBezier(0, 1, 2, 3)), ('C(0j,1.0,2,3+0j)', CubicBezier(0j, 1.0, 2, 3 + 0j)),
            ('A1', Arc(0j, 2 + 1j, 0, 0, 1, 3 + 0j)), ('A2', Arc(0, 2.0 + 1j, 0.0, False, True, 3)),
            ('A3', Arc(0j, -2 - 1j, 0, 0, 1, 3 + 0j)),
            # exact integers beyond 2**53 next to a float / complex control point: distinct values that a
            # conversion to double would merge (== must not say equal unless the hashes agree)
            ('Line(2**53+1,1j)', Line(2 ** 53 + 1, 1j)), ('Line(2**53,1j)', Line(2 ** 53, 1j)), ('Line(2.0**53,1j)', Line(2.0 ** 53, 1j)),
            ('Q(2**53+1,0.5,1j)', QuadraticBezier(2 ** 53 + 1, 0.5, 1j)), ('Q(2**53,0.5,1j)', QuadraticBezier(2 ** 53, 0.5, 1j)),
            ('C(0,1,2,2**62+1)', CubicBezier(0, 1.5, 2, 2 ** 62 + 1)), ('C(0,1,2,2**62)', CubicBezier(0, 1.5, 2, 2 ** 62)),
            # the same arc with its rotation written a whole turn (or two) further: whether == calls them equal or not,
            # equal ones must hash alike (also inside a Path)
            ('A_rot30', Arc(0j, 2 + 1j, 30, 0, 1, 3 + 0j)), ('A_rot390', Arc(0j, 2 + 1j, 390, 0, 1, 3 + 0j)),
            ('A_rot-330.0', Arc(0j, 2 + 1j, -330.0, 0, 1, 3 + 0j)), ('A_rot750', Arc(0j, 2 + 1j, 750, 0, 1, 3 + 0j)),
            ('A_rot30_turned_360', Arc(0j, 2 + 1j, 30, 0, 1, 3 + 0j).rotated(360, origin=0j)),
            ('A_rot0', Arc(0j, 2 + 1j, 0, 0, 1, 3 + 0j)), ('A_rot360', Arc(0j, 2 + 1j, 360, 0, 1, 3 + 0j)), ('A_rot-0.0', Arc(0j, 2 + 1j, -0.0, 0, 1, 3 + 0j)),
            # and numpy scalars of the same value
            ('Line(np0,np1)', Line(np.complex128(0), np.complex128(1))), ('Q(np)', QuadraticBezier(np.float64(0), np.float64(1), np.float64(2)))]
    objs += [('Path(%s)' % n_, Path(Line(-1 + 0j, 0j), sg_)) for n_, sg_ in segs if n_.startswith('A_rot')]
    for group, kind in ((objs, 'Path'), (segs, 'segment')):
        for i in range(len(group)):
            for j in range(i + 1, len(group)):
                (da, a), (db, b) = group[i], group[j]
                e = outcome(lambda: a == b)
                acc.case({'a': da, 'b': db}, cls='hash_eq/%s/%s' % (kind, 'equal' if e == ('ok', True) else 'unequal'),
                         nontrivial=e == ('ok', True))
                if e == ('ok', True):
                    hq = outcome(lambda: hash(a) == hash(b))
                    if hq != ('ok', True):
                        differs = 'closed_flag' if kind == 'Path' and getattr(a, '_closed', None) != getattr(b, '_closed', None) else 'other'
                        acc.violation('eq_implies_hash', {'kind': kind, 'how': 'parsed variants', 'differs_in': differs},
                                      {'level': 'hash_eq', 'kind': kind, 'a': da, 'b': db},
                                      observed=hq, expected=('ok', True),
                                      detail='%s == %s but hashes differ' % (da, db))


def run_hash_collisions(cfg, acc, only=None):
    """reassign a control point to a DIFFERENT value with the SAME hash (CPython: hash(-1.0) ==
    hash(-2.0)), after the caches were filled: a cache keyed on hash(self) instead of the control
    points would not notice"""
    specs = {'L': (Line, ['start', 'end'], [0j, 4 + 3j]),
             'Q': (QuadraticBezier, ['start', 'control', 'end'], [0j, 2 + 5j, 6 + 0j]),
             'C': (CubicBezier, ['start', 'control1', 'control2', 'end'], [0j, 1 + 3j, 4 + 3j, 6 + 0j])}
    pairs = [(-1 + 3j, -2 + 3j), (-2 - 1j, -1 - 1j), (complex(5, -1), complex(5, -2))]
    assert all(hash(a) == hash(b) and a != b for a, b in pairs)
    for kind, (cls, attrs, base) in specs.items():
        for ai, attr in enumerate(attrs):
            for pi, (v1, v2) in enumerate(pairs):
                case = {'level': 'hash_collision', 'config': cfg, 'kind': kind, 'attr': attr, 'pair': pi}
                if only and case != only:
                    continue
                pts = list(base)
                pts[ai] = v1
                s_ = cls(*pts)
                seg_observe(s_)                       # fill every cache
                rev = outcome(lambda: s_.reversed())
                setattr(s_, attr, v2)
                fresh = rebuild_by_value(s_)
                acc.case(case, cls='hash_collision/%s' % kind)
                for (qn, a), (_, b) in zip(seg_observe(s_), seg_observe(fresh)):
                    if not same_outcome(a, b, 1e-9):
                        acc.violation('segment_query_differs_from_fresh',
                                      {'query': qn, 'kind': kind, 'config': cfg_name(cfg), 'ops': ['q_all', 'assign_same_hash'], 'object': 'original'},
                                      case, observed=a, expected=b)
                        break
                p_ = Path(cls(*[v1 if i == ai else q for i, q in enumerate(base)]))
                observe(p_)
                setattr(p_[0], attr, v2)              # not through the Path interface: only the segment-level claim is judged
                fr = rebuild_by_value(p_[0])
                if not same_outcome(outcome(lambda: p_[0].length()), outcome(lambda: fr.length()), 1e-9):
                    acc.violation('segment_query_differs_from_fresh',
                                  {'query': 'length', 'kind': kind, 'config': cfg_name(cfg), 'ops': ['path_queries', 'assign_same_hash'], 'object': 'original'},
                                  case, observed=p_[0].length(), expected=fr.length())


# ---------------------------------------------------------------- harness interface

def shards(tier, seed):
    out = []
    for cfg in (True, False):
        out.append({'what': 'path', 'config': cfg})
        out += [{'what': 'path', 'config': cfg, 'ops': v} for v in VARIANTS[1:]]
        if tier == 'thorough' and cfg:
            # LMAX 3 over the 3-segment pool, scipy configuration only (the fallback costs ~5x per state)
            out.append({'what': 'path', 'config': cfg, 'variant': 'deep'})
        for label, spec in SEG_LABELLED:
            out.append({'what': 'segment', 'config': cfg, 'spec': spec, 'label': label})
    out.append({'what': 'derived', 'config': True})
    out.append({'what': 'derived_paths', 'config': True})
    if tier != 'quick':
        out.append({'what': 'derived_paths', 'config': False})
    out.append({'what': 'derived', 'config': False})
    out.append({'what': 'long', 'config': True})
    out.append({'what': 'long', 'config': False})
    out.append({'what': 'hash_eq'})
    out.append({'what': 'hash_collision', 'config': True})
    out.append({'what': 'hash_collision', 'config': False})
    return out


def seg_depth(tier):
    return 4 if tier == 'quick' else 5


def run_shard(desc, tier, seed):
    acc = core.Acc()
    if desc['what'] == 'hash_eq':
        run_hash_eq(acc)
        return acc
    cfg = desc['config']
    old = sp._quad_available
    sp._quad_available = bool(cfg)
    try:
        if desc['what'] == 'hash_collision':
            run_hash_collisions(cfg, acc)
        elif desc['what'] == 'derived':
            run_derived_parallel(cfg, acc, tier)
        elif desc['what'] == 'derived_paths':
            run_derived_paths_parallel(cfg, acc, tier)
        elif desc['what'] == 'long':
            run_long_parallel(cfg, acc, tier)
        elif desc['what'] == 'path':
            vt = desc.get('variant', tier)
            # horizon: the clean tree closes at <= 30k (quick) / 500k (thorough) states in total; a change that
            # adds hidden per-object state (kept by value in the key) must not turn the search into an endless one
            ov = desc.get('ops', 'main')
            fix = core.parallel_bfs([([], Path())], successors_path(vt, cfg, ov), path_key,
                                    inspect_path(vt, cfg, ov), acc, jobs=16,
                                    max_states=60000 if tier == "quick" else 3000000)
            acc.extra['fixpoint'] = {'path/%s/%s/%s' % (vt, ov, cfg_name(cfg)): bool(fix)}
        else:
            spec = desc['spec']
            core.parallel_bfs([([], [j2seg(spec)])], successors_seg(cfg, spec, desc.get('label')), seg_key,
                              inspect_seg(cfg, desc.get('label', spec[0])), acc, jobs=16, max_depth=seg_depth(tier))
            acc.caps_hit.clear()   # the depth bound is the stated bound, not a cap hit
            acc.extra['segment_depth_bound'] = seg_depth(tier)
    finally:
        sp._quad_available = old
    return acc


# ---------------------------------------------------------------- long paths (size thresholds)

LONG_SIZES = [31, 32, 33, 34, 63, 64, 65, 127, 128, 129]
LONG_SIZES_QUICK = [31, 32, 33, 34, 64, 65]


def long_segments(n):
    segs = []
    pen = 0j
    for k in range(n):
        e = pen + complex((1 + k % 3) * S, ((-1) ** k) * (1 + k % 2) * S)
        segs.append(Line(pen, e) if k % 4 else CubicBezier(pen, pen + S * (1 + 1j), e - S * (1 - 1j), e))
        pen = e
    return segs


def long_ops(n):
    """mutations that take a path of n segments across (or near) every power of two, both ways"""
    ops = [['del', 0], ['del', -1], ['pop'], ['delslice', 1, 3], ['delslice', 0, n - 31], ['delslice', 5, n - 10], ['delslice', 0, n - 1],
           ['slice_to_one', 2, n - 2], ['append_new'], ['extend_new', 3], ['set_new', n // 2], ['start=new'], ['end=new'], ['reverse'],
           ['insert_new', 0], ['insert_new', n // 2]]
    return [o for o in ops if not (o[0] == 'delslice' and not 0 <= o[1] < o[2] <= n)]


def apply_long_op(p, op):
    o = op[0]
    new = lambda: Line(complex(40 * S, 3 * S), complex(41 * S, 7 * S))
    if o == 'del':
        del p[op[1]]
    elif o == 'pop':
        p.pop()
    elif o == 'delslice':
        del p[op[1]:op[2]]
    elif o == 'slice_to_one':
        p[op[1]:op[2]] = [new()]
    elif o == 'append_new':
        p.append(new())
    elif o == 'extend_new':
        p.extend([new() for _ in range(op[1])])
    elif o == 'set_new':
        p[op[1]] = new()
    elif o == 'insert_new':
        p.insert(op[1], new())
    elif o == 'start=new':
        p.start = complex(-5 * S, 2 * S)
    elif o == 'end=new':
        p.end = complex(-5 * S, 2 * S)
    elif o == 'reverse':
        p.reverse()
    else:
        raise ValueError(op)


LONG_QUERIES = [('len', lambda p: len(p)), ('length', lambda p: p.length()), ('start', lambda p: p.start), ('end', lambda p: p.end)] + \
    [('point(%r)' % T, (lambda T: lambda p: p.point(T))(T)) for T in (0.0, 0.013, 0.3, 0.5, 0.77, 0.999, 1.0)] + \
    [('T2t(%r)' % T, (lambda T: lambda p: p.T2t(T))(T)) for T in (0.013, 0.3, 0.5, 0.77, 0.999)] + \
    [('bbox', lambda p: p.bbox()), ('iscontinuous', lambda p: p.iscontinuous()), ('length(0.2,0.7)', lambda p: p.length(0.2, 0.7)),
     ('radialrange', lambda p: p.radialrange(complex(2 * S, 11 * S)))]


def _long_worker(args):
    cfg, n = args
    a = core.Acc()
    old = sp._quad_available
    sp._quad_available = bool(cfg)
    try:
        run_long_histories(cfg, a, sizes=[n])
    finally:
        sp._quad_available = old
    return a


def _derived_worker(args):
    cfg, depth, name = args
    a = core.Acc()
    old = sp._quad_available
    sp._quad_available = bool(cfg)
    try:
        run_derived(cfg, a, depth, only=None, names=[name])
    finally:
        sp._quad_available = old
    return a


def run_derived_parallel(cfg, acc, tier):
    import multiprocessing as mp
    depth = 2 if (tier != 'quick' or cfg) else 1
    names = [n for n, _ in derived_shapes()]
    with mp.get_context('fork').Pool(16) as pool_:
        for a in pool_.map(_derived_worker, [(cfg, depth, n) for n in names], chunksize=1):
            acc.merge(a)


def run_long_parallel(cfg, acc, tier):
    import multiprocessing as mp
    sizes = LONG_SIZES_QUICK if tier == 'quick' else LONG_SIZES
    with mp.get_context('fork').Pool(min(16, len(sizes))) as pool_:
        for a in pool_.map(_long_worker, [(cfg, n) for n in sizes], chunksize=1):
            acc.merge(a)


def run_long_histories(cfg, acc, sizes=None):
    """histories  [queries] mutation [queries] mutation  on paths of 31..129 segments: whatever a Path
    precomputes for long paths must follow every mutation, also when the path shrinks below the size at
    which it was built or grows above it"""
    for n in (sizes or LONG_SIZES):
        ops = long_ops(n)
        for pre in (False, True):
            for op1 in ops:
                for op2 in [None] + ([['append_new'], ['delslice', 0, 2], ['pop']] if pre else []):
                    hist = (['q'] if pre else []) + [op1] + ((['q'] if pre else []) + [op2] if op2 else [])
                    p = Path(*long_segments(n))
                    try:
                        for h in hist:
                            if h == 'q':
                                for _, f in LONG_QUERIES:
                                    outcome(lambda: f(p))
                            else:
                                apply_long_op(p, h)
                    except Exception as e:
                        acc.violation('mutation_raises', {'op': op1[0], 'exc': type(e).__name__, 'long': True},
                                      {'level': 'long', 'config': cfg, 'n': n, 'history': hist}, observed=repr(e))
                        continue
                    fresh = Path(*[rebuild_by_value(s_) for s_ in p])
                    case = {'level': 'long', 'config': cfg, 'n': n, 'history': hist}
                    acc.case(case, cls='long/%s/%s' % (cfg_name(cfg), 'ge32' if n >= 32 else 'lt32'))
                    acc.traces += 1
                    for qn, f in LONG_QUERIES:
                        a, b = outcome(lambda: f(p)), outcome(lambda: f(fresh))
                        if not same_outcome(a, b, tol_for(qn)):
                            acc.violation('path_query_differs_from_fresh',
                                          {'query': qn.split('(')[0], 'oracle': 'fresh_by_value', 'config': cfg_name(cfg), 'long': True,
                                           'last_mutation': (op2 or op1)[0], 'queried_before': pre},
                                          case, observed=a, expected=b, detail='query %s after history %s on a %d-segment path' % (qn, hist, n))
                            break


# ---------------------------------------------------------------- derived objects

def fresh_from_public(s):
    """a new segment built by the constructor from the PUBLIC defining attributes of s (for an Arc: start,
    radius, rotation, large_arc, sweep, end) - what a user who reads those attributes would build"""
    return j2seg(seg2j(s))


def observe_any(s):
    u_ = abs(complex(s.point(0.5)) - complex(s.start)) + abs(complex(s.end) - complex(s.point(0.5))) + 1e-300
    z = complex(2.3, 11.1) * u_ + complex(s.start)
    obs = [('type', outcome(lambda: type(s).__name__)),
           ('start_end', outcome(lambda: (complex(s.start), complex(s.end)))),
           ('points', outcome(lambda: tuple(complex(s.point(t)) for t in (0.0, 0.17, 0.5, 0.83, 1.0)))),
           ('length', outcome(lambda: float(s.length()))),
           ('length_sub', outcome(lambda: float(s.length(0.2, 0.7)))),
           ('bbox', outcome(lambda: tuple(float(x) for x in s.bbox()))),
           ('derivative', outcome(lambda: complex(s.derivative(0.3)))),
           ('unit_tangent', outcome(lambda: complex(s.unit_tangent(0.3)))),
           ('reversed_points', outcome(lambda: tuple(complex(s.reversed().point(t)) for t in (0.25, 0.75)))),
           ('split_points', outcome(lambda: tuple(complex(x.point(0.5)) for x in s.split(0.4)))),
           ('cropped_points', outcome(lambda: tuple(complex(s.cropped(0.2, 0.9).point(t)) for t in (0.0, 0.5, 1.0)))),
           ('translated_points', outcome(lambda: tuple(complex(s.translated((1 - 2j) * u_).point(t)) for t in (0.0, 0.4, 1.0)))),
           ('d', outcome(lambda: Path(s).d())),
           ('ilength', outcome(lambda: float(s.ilength(0.4 * s.length()))))]
    if not isinstance(s, Arc):
        obs += [('poly', outcome(lambda: complex(s.poly()(0.3)))),
                ('points_vector', outcome(lambda: tuple(complex(q) for q in s.points([0.3, 0.6])))),
                ('radialrange', outcome(lambda: tuple((float(a), float(b)) for a, b in s.radialrange(z)))),
                ('derivative2', outcome(lambda: complex(s.derivative(0.3, 2))))]
    else:
        obs += [('arc_parameters', outcome(lambda: (complex(s.center), float(s.theta) % 360.0, float(s.delta), complex(s.radius))))]
    return obs


DERIVE_OPS = [
    ('reversed', lambda s: s.reversed()),
    ('cropped_mid', lambda s: s.cropped(0.25, 0.75)),
    ('cropped_head', lambda s: s.cropped(0.0, 0.45)),
    ('cropped_tail', lambda s: s.cropped(0.55, 1.0)),
    ('split_first', lambda s: s.split(0.4)[0]),
    ('split_second', lambda s: s.split(0.4)[1]),
    ('rotated40', lambda s: s.rotated(40, origin=s.point(0.5) + (s.end - s.start) * 0.3j)),
    ('rotated_default_origin', lambda s: s.rotated(-75)),
    ('quarter_turns_x5', lambda s: s.rotated(90, origin=0j).rotated(90, origin=0j).rotated(90, origin=0j).rotated(90, origin=0j).rotated(90, origin=0j)),
    ('translated', lambda s: s.translated((s.end - s.start) * (0.7 - 0.4j) + abs(s.point(0.5) - s.start) * 0.1)),
    ('translated_far', lambda s: s.translated((1.0e6 - 2.0e6j) * (abs(s.point(0.5) - s.start) + abs(s.end - s.point(0.5))))),
    ('scaled1.5', lambda s: s.scaled(1.5)),
    ('mirrored', lambda s: s.scaled(-1.0)),
    ('via_d_string', lambda s: parse_path(Path(s).d())[0]),
    ('in_path_rotated', lambda s: (lambda u: Path(Line(s.start - (2 + 1j) * u, s.start), s, Line(s.end, s.end + (1 - 3j) * u)).rotated(33, origin=0j)[1])(abs(s.point(0.5) - s.start) + 1e-300)),
    ('in_path_reversed', lambda s: (lambda u: Path(Line(s.start - (2 + 1j) * u, s.start), s).reversed()[0])(abs(s.point(0.5) - s.start) + 1e-300)),
    ('cropped_descending_arc', lambda s: s.cropped(0.8, 0.3) if isinstance(s, Arc) else s.cropped(0.3, 0.8)),
]


def warm(s):
    for q in (lambda: s.length(), lambda: s.length(0.1, 0.6), lambda: s.bbox(), lambda: s.point(0.3), lambda: s.derivative(0.3),
              lambda: s.poly(), lambda: s.unit_tangent(0.2), lambda: hash(s), lambda: s.ilength(0.3 * s.length())):
        outcome(q)
    return s


def derived_shapes(scale=1.0):
    from mc import alphabets as AB
    names = ['L_diagonal', 'L_nondyadic', 'Q_generic', 'Q_nondyadic', 'Q_control_eq_start', 'Q_control_eq_end', 'C_arch', 'C_sshape', 'C_nondyadic',
             'C_c2_eq_end', 'C_c1_eq_start', 'C_loop', 'A_circle_small_ccw', 'A_circle_large_cw', 'A_ellipse_3to1', 'A_ellipse_rot30', 'A_rot400',
             'A_cw_large_rot30', 'A_negative_radius', 'A_exact_fit_semicircle', 'A_too_small']
    return [(n, AB.make(n, scale)) for n in names]


def run_derived(cfg, acc, depth, only=None, names=None):
    """objects produced BY the library (one operation, or two in a row; the source measured first or not)
    against a segment built by the constructor from their public attributes: every observation must agree.
    A derived object that carries a stale flag, cache or hidden parameter traces the right curve until
    something re-derives it - which is exactly what the observations (reversed, split, cropped, translated,
    d) do."""
    for name, base in derived_shapes(1.0 if cfg else S):
        if names is not None and name not in names:
            continue
        kind = type(base).__name__[0]
        for w in (False, True, 'source'):
            seqs = [(i,) for i in range(len(DERIVE_OPS))]
            if depth >= 2:
                seqs += [(i, j) for i in range(len(DERIVE_OPS)) for j in range(len(DERIVE_OPS)) if i != j]
            for seq in seqs:
                case = {'level': 'derived', 'config': cfg, 'shape': name, 'warm': w, 'ops': [DERIVE_OPS[i][0] for i in seq]}
                if only is not None and (only['shape'], only['warm'], only['ops']) != (name, w, case['ops']):
                    continue
                src = rebuild_by_value(base)
                if w:
                    warm(src)
                r = ('ok', src)
                for i in seq:
                    r = outcome(lambda: DERIVE_OPS[i][1](r[1]))
                    if r[0] != 'ok':
                        break
                    if w is True:
                        warm(r[1])
                acc.case(case, cls='derived/%s/%s/%d' % (cfg_name(cfg), kind, len(seq)))
                acc.traces += 1
                sig = {'kind': kind, 'last_op': case['ops'][-1], 'first_op': case['ops'][0] if len(seq) > 1 else None, 'warm': w, 'config': cfg_name(cfg)}
                if r[0] != 'ok':
                    # an operation may legitimately refuse (e.g. cropping a piece that became degenerate): only a crash
                    # on an object the previous operation returned is reported, and only for the second step
                    if len(seq) > 1 and r[1] not in ('AssertionError', 'ValueError'):
                        acc.violation('operation_on_derived_object_raises', dict(sig, exc=r[1]), case, observed=r)
                    else:
                        acc.filt('derive_op_refused')
                    continue
                obj = r[1]
                fr = outcome(lambda: fresh_from_public(obj))
                if fr[0] != 'ok':
                    acc.violation('public_attributes_do_not_build_a_segment', dict(sig, exc=fr[1]), case, observed=fr)
                    continue
                size = abs(complex(obj.start)) + abs(complex(obj.end)) + 1.0
                tol = (1e-7 if kind == 'A' else 1e-9) * size
                oa, ob = observe_any(obj), observe_any(fr[1])
                for (qn, a), (_, b) in zip(oa, ob):
                    t_ = 1e-6 if qn in ('ilength',) else (tol if qn != 'arc_parameters' else 1e-5 * size)
                    if qn == 'd':
                        ok = a[0] == b[0] and (a[0] != 'ok' or parse_path(a[1]) == parse_path(b[1]))
                    else:
                        ok = same_outcome(a, b, t_)
                    if not ok and qn in ('length', 'length_sub', 'ilength') and a[0] == b[0] == 'ok':
                        ok = abs(a[1] - b[1]) <= 1e-9 * max(abs(b[1]), 1e-300) + (1e-6 if qn == 'ilength' else 0.0)
                    if not ok and a[0] == 'exc' and b[0] == 'exc':
                        ok = True       # both refuse (possibly with different messages)
                    if not ok:
                        acc.violation('derived_object_differs_from_fresh', dict(sig, query=qn), case, observed=a, expected=b,
                                      detail='%s of the object returned by %s' % (qn, ' then '.join(case['ops'])))
                        break


# ---------------------------------------------------------------- derived paths

def path_sources():
    PL = pool('thorough')
    mk = lambda idx: [j2seg(PL[i]) for i in idx]
    closing = lambda segs: Line(segs[-1].end, segs[0].start)
    out = {}
    out['open_LCQ'] = lambda: Path(*mk([0, 1, 2]))
    out['open_LCQA'] = lambda: Path(*mk([0, 1, 2, 3]))
    out['closed_LCQ_line'] = lambda: (lambda sg: Path(*(sg + [closing(sg)])))(mk([0, 1, 2]))
    out['parsed_closed_Z'] = lambda: parse_path(Path(*(lambda sg: sg + [closing(sg)])(mk([0, 1, 2]))).d(use_closed_attrib=True))
    out['parsed_open'] = lambda: parse_path(Path(*mk([0, 1])).d())
    out['two_subpaths'] = lambda: Path(*(mk([0, 1]) + [Line(complex(20 * S, 3 * S), complex(24 * S, 6 * S))]))
    out['closed_then_open_parsed'] = lambda: parse_path(Path(*(lambda sg: sg + [closing(sg)])(mk([0, 1]))).d(use_closed_attrib=True) +
                                                        ' M %r,%r L %r,%r' % (20 * S, 3 * S, 24 * S, 6 * S))
    return out


def _lead_in(p):
    p.insert(0, Line(p.start - complex(2 * S, S), p.start))
    return p


def _mut(f):
    def g(p):
        f(p)
        return p
    return g


PATH_DERIVE_OPS = [
    ('reversed', lambda p: p.reversed()),
    ('cropped_inner', lambda p: p.cropped(0.2, 0.7)),
    ('cropped_from_0', lambda p: p.cropped(0, 0.5)),
    ('cropped_to_1', lambda p: p.cropped(0.4, 1)),
    ('translated', lambda p: p.translated(complex(3 * S, -2 * S))),
    ('rotated', lambda p: p.rotated(33, origin=0j)),
    ('scaled', lambda p: p.scaled(1.5)),
    ('mirrored', lambda p: p.scaled(-1.0, 1.0) if not any(isinstance(x, Arc) for x in p) else p.scaled(-1.0)),
    ('via_d', lambda p: parse_path(p.d())),
    ('via_d_Z', lambda p: parse_path(p.d(use_closed_attrib=True))),
    ('first_subpath', lambda p: p.continuous_subpaths()[0]),
    ('same_segments', lambda p: Path(*p)),
    ('copy', lambda p: copy.copy(p)),
    ('insert_lead_in', _lead_in),
    ('pop', _mut(lambda p: p.pop())),
    ('end=start', _mut(lambda p: setattr(p, 'end', p.start))),
    ('start=moved', _mut(lambda p: setattr(p, 'start', p.start + complex(S, 2 * S)))),
    ('arcs_to_cubics', _mut(lambda p: p.approximate_arcs_with_cubics())),
]

PATH_OBS = QUERY_FNS + [
    ('closed_property', lambda p: p.isclosed() if p.iscontinuous() else None),
    ('area', lambda p: p.area() if (p.iscontinuous() and p.isclosed()) else None),
    ('point_list', lambda p: [p.point(T) for T in (0.0, 0.1, 0.45, 0.8, 1.0)]),
    ('T2t_list', lambda p: [p.T2t(T) for T in (0.1, 0.45, 0.8)]),
    ('reversed.d', lambda p: p.reversed().d()),
    ('cropped.d', lambda p: p.cropped(0.15, 0.85).d()),
    ('ilength', lambda p: p.ilength(0.4 * p.length()) if sp._quad_available else None),
]


def warm_path(p):
    for f in (lambda: p.length(), lambda: p.point(0.3), lambda: p.T2t(0.6), lambda: p.bbox(), lambda: p.start, lambda: p.end,
              lambda: p.isclosed() if p.iscontinuous() else None, lambda: [s_.length() for s_ in p], lambda: p.d()):
        outcome(f)
    return p


def run_derived_paths(cfg, acc, only=None, names=None):
    """paths produced by the library from other paths (and edited through the Path interface), one or two
    steps, the source measured first or not: every observation against a Path constructed from by-value
    copies of the result's segments"""
    for name, mkp in path_sources().items():
        if names is not None and name not in names:
            continue
        for w in (False, True, 'source'):
            seqs = [(i,) for i in range(len(PATH_DERIVE_OPS))] + \
                   [(i, j) for i in range(len(PATH_DERIVE_OPS)) for j in range(len(PATH_DERIVE_OPS))]
            for seq in seqs:
                case = {'level': 'derived_path', 'config': cfg, 'source': name, 'warm': w, 'ops': [PATH_DERIVE_OPS[i][0] for i in seq]}
                if only is not None and (only['source'], only['warm'], only['ops']) != (name, w, case['ops']):
                    continue
                src = mkp()
                if w:
                    warm_path(src)
                r = ('ok', src)
                for i in seq:
                    r = outcome(lambda: PATH_DERIVE_OPS[i][1](r[1]))
                    if r[0] != 'ok' or not isinstance(r[1], Path) or len(r[1]) == 0:
                        break
                    if w is True:
                        warm_path(r[1])
                if r[0] != 'ok' or not isinstance(r[1], Path) or len(r[1]) == 0:
                    acc.filt('derive_op_refused_or_empty')
                    continue
                obj = r[1]
                acc.case(case, cls='derived_path/%s/%d' % (cfg_name(cfg), len(seq)))
                acc.traces += 1
                sig = {'last_op': case['ops'][-1], 'first_op': case['ops'][0] if len(seq) > 1 else None, 'warm': w, 'config': cfg_name(cfg),
                       'parsed_source': name.startswith('parsed') or 'parsed' in name}
                fresh = Path(*[rebuild_by_value(s_) for s_ in obj])
                for qn, f in PATH_OBS:
                    a, b = outcome(lambda: f(obj)), outcome(lambda: f(fresh))
                    ok = same_outcome(a, b, tol_for(qn)) or (a[0] == 'exc' and b[0] == 'exc')
                    if not ok and a[0] == b[0] == 'ok' and isinstance(a[1], str) and isinstance(b[1], str):
                        # d-strings: the same path up to the last digit (numpy vs Python arithmetic round differently)
                        pa, pb = outcome(lambda: path2j(parse_path(a[1]))), outcome(lambda: path2j(parse_path(b[1])))
                        ok = pa[0] == pb[0] == 'ok' and close(pa[1], pb[1], TOL)
                    if not ok and qn in ('length', 'length(0.2,0.7)', 'area', 'ilength') and a[0] == b[0] == 'ok' and a[1] is not None and b[1] is not None:
                        ok = abs(a[1] - b[1]) <= 1e-9 * max(abs(b[1]), TOL)
                    if not ok:
                        acc.violation('derived_path_differs_from_fresh', dict(sig, query=qn.split('(')[0]), case, observed=a, expected=b,
                                      detail='%s of the path returned by %s' % (qn, ' then '.join(case['ops'])))
                        break


def _derived_path_worker(args):
    cfg, name = args
    a = core.Acc()
    old = sp._quad_available
    sp._quad_available = bool(cfg)
    try:
        run_derived_paths(cfg, a, names=[name])
    finally:
        sp._quad_available = old
    return a


def run_derived_paths_parallel(cfg, acc, tier):
    import multiprocessing as mp
    names = list(path_sources())
    with mp.get_context('fork').Pool(len(names)) as pool_:
        for a in pool_.map(_derived_path_worker, [(cfg, n) for n in names], chunksize=1):
            acc.merge(a)


def expected_classes(tier):
    out = ['hash_eq/Path/equal', 'hash_eq/segment/equal', 'long/scipy/ge32', 'long/fallback/lt32', 'derived/scipy/A/2', 'derived/scipy/C/2', 'derived/fallback/Q/1', 'derived_path/scipy/2'] + \
        ['path_%s/%s' % (v, c) for v in VARIANTS[1:] for c in ('scipy', 'fallback')]
    for c in ('scipy', 'fallback'):
        for n in range(0, lmax(tier) + 1):
            out.append('path/%s/len%d/nocache' % (c, n))
        for n in range(1, lmax(tier) + 1):
            out.append('path/%s/len%d/cached' % (c, n))
        for k in ('L', 'Q', 'C', 'Csym'):
            out += ['segment/%s/%s/1' % (c, k), 'segment/%s/%s/2' % (c, k)]
    return out


def space(tier, seed):
    return {
        'path_level_variants': ({'thorough': 'LMAX 2, 4-segment pool incl. an Arc, both configurations',
                                 'deep': 'LMAX 3, 3-segment pool, scipy configuration'} if tier == 'thorough' else 'LMAX 2, 3-segment pool, both configurations'),
        'path_level': {'pool': pool(tier), 'LMAX': lmax(tier), 'start/end assignment pool': [core.jz(ZS), core.jz(ZE), 'pool[0].start', 'pool[0].end'],
                       'operations_from_a_full_path': path_ops(lmax(tier), tier),
                       'bound': 'fixpoint (all histories of every length over this alphabet)'},
        'segment_level': {'specs': SEG_SPECS, 'depth': seg_depth(tier), 'queries': SEG_QUERIES,
                          'ops': 'assign each control attribute (alt/original), 5 length queries, reversed() copy then ops on either object'},
        'hash_eq': {'parsed_variants': len(hash_eq_cases())},
        'long_paths': {'sizes': LONG_SIZES_QUICK if tier == 'quick' else LONG_SIZES, 'mutations': [o[0] for o in long_ops(40)], 'histories': '[queries] mutation [queries] [mutation]', 'queries': [q for q, _ in LONG_QUERIES]},
        'configurations': ['scipy', 'fallback'],
    }


def replay(case):
    acc = core.ReplayAcc()
    if case['level'] == 'hash_eq':
        run_hash_eq(acc)
        return [v for v in acc.vlist if v['case'].get('a') == case['a'] and v['case'].get('b') == case['b']]
    cfg = case['config']
    old = sp._quad_available
    sp._quad_available = bool(cfg)
    if case['level'] == 'hash_collision':
        try:
            run_hash_collisions(cfg, acc, only=case)
        finally:
            sp._quad_available = old
        return acc.vlist
    if case['level'] == 'derived_path':
        try:
            run_derived_paths(cfg, acc, only=case)
        finally:
            sp._quad_available = old
        return acc.vlist
    if case['level'] == 'derived':
        try:
            run_derived(cfg, acc, len(case['ops']), only=case)
        finally:
            sp._quad_available = old
        return acc.vlist
    if case['level'] == 'long':
        try:
            run_long_histories(cfg, acc)
        finally:
            sp._quad_available = old
        return [v for v in acc.vlist if v['case'].get('n') == case['n'] and v['case'].get('history') == case['history']]
    try:
        hist = case['history']
        if case['level'] == 'path':
            tier = case['tier']
            p = Path()
            for op in hist[:-1]:
                apply_path_op(p, op, tier)
            if case.get('transition'):
                # re-run the successor generation of the parent state for that op only
                for op, q in successors_path(tier, cfg, case.get('ops', 'main'))(p, hist[:-1], acc):
                    pass
                acc.vlist = [v for v in acc.vlist if v['case']['history'] == hist]
            else:
                apply_path_op(p, hist[-1], tier) if hist else None
                inspect_path(tier, cfg, case.get('ops', 'main'))(p, hist, acc)
        else:
            spec = dict(SEG_LABELLED)[case['kind']]
            state = [j2seg(spec)]
            succ = successors_seg(cfg, spec, case['kind'])

            def step(state, op):
                for o, st in succ(state, [], core.Acc()):
                    if o == op:
                        return st
                raise ValueError(op)
            for op in hist[:-1]:
                state = step(state, op)
            if case.get('transition'):
                for o, st in succ(state, hist[:-1], acc):
                    pass
                acc.vlist = [v for v in acc.vlist if v['case']['history'] == hist]
            else:
                if hist:
                    state = step(state, hist[-1])
                inspect_seg(cfg, case['kind'])(state, hist, acc)
    finally:
        sp._quad_available = old
    return acc.vlist
