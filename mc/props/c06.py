"""C06  length() is the true arc length: bracketed, additive, finite, scipy-independent.

Product mode: shape library (all four classes) x scales x all sub-interval
pairs of a t grid x {scipy, fallback}.  Oracle: rigorous bracket [sum of
chords, sum of control-polygon / tangent-polygon lengths] of a fine
subdivision computed independently (mc/refgeom.py), an independent
Gauss-Legendre quadrature, additivity, finiteness.
"""
import itertools
import math

import numpy as np

from mc import core, refgeom
from mc import alphabets as AB
from mc.enc import outcome, seg2j, j2seg

import svgpathtools.path as sp
from svgpathtools import Line, QuadraticBezier, CubicBezier, Arc, Path

ID = 'C06'
LEVEL = 'exploration'
RULE = ('shape library x scales x all pairs t0<=t1 of the t grid x {scipy,fallback}; one case per '
        '(shape, scale, t0, t1, configuration); non-trivial = t0 < t1; distinct = distinct tuple')
ASSUMPTIONS = [
    'bracket: chord sum <= arc length <= control-polygon sum (Beziers), tangent-polygon sum (convex elliptical arc pieces)',
    'arc geometry for the bracket comes from an independent F.6.5 implementation (C04 decides the arc parameterisation)',
    'fallback configuration at large scales is capped by a point-evaluation budget; capped cases are reported as not explored',
]
TS = [0.0, 0.25, 1.0 / 3.0, 0.5, 0.7, 1.0]
# parameters close to (not at) the ends, and a short interval next to the end
TS_NEAR_ENDS = [0.0, 1e-9, 3e-6, 0.5, 1.0 - 5e-6, 1.0 - 4e-6, 1.0 - 2e-6, 1.0]
ROTS = [0, 90, 180, 37, 211]


class Budget(Exception):
    pass


def quad_branch(pts):
    s, c, e = pts
    a = s - 2 * c + e
    b = 2 * (c - s)
    if abs(a) < 1e-12:
        return 'Q:linear'
    cross = a.real * b.imag - a.imag * b.real
    if abs(cross) <= 1e-12 * abs(a) * abs(b):
        dot = a.real * b.real + a.imag * b.imag
        return 'Q:collinear_' + ('antiparallel' if dot < 0 else 'parallel')
    return 'Q:closed_form'


def truth(seg, name, t0, t1):
    """(lower, upper, quadrature, zero_speed_inside)"""
    if isinstance(seg, Arc):
        spec = (seg.start, seg.radius, seg.rotation, seg.large_arc, seg.sweep, seg.end)
        par = refgeom.arc_center_params(*spec)
        lo, up = refgeom.arc_length_bracket(par, t0, t1)
        return lo, up, None, False
    pts = list(seg.bpoints())
    lo, up = refgeom.bezier_length_bracket(pts, t0, t1, depth=12)
    q = refgeom.bezier_length_quadrature(pts, t0, t1)
    if len(pts) == 2:
        z = pts[0] == pts[1]
    else:
        z = refgeom.speed_zero_in(pts, t0, t1) or refgeom.near_speed_zero(pts, t0, t1)
    return lo, up, q, z


# non-default accuracy options (error is absolute: given relative to the curve's scale; min_depth only ever raised,
# because a min_depth below the default is a documented way to ask for less protection against symmetric curves)
LENGTH_OPTS = [None,
               {'error': 1e-9, 'how': 'keyword'}, {'min_depth': 8, 'how': 'keyword'},
               {'error': 1e-8, 'min_depth': 6, 'how': 'keyword'}, {'error': 1e-8, 'min_depth': 6, 'how': 'positional'},
               {'error': 1e-10, 'min_depth': 5, 'how': 'positional'},
               # an ABSOLUTE error of 1e-3 asked for a curve a thousand units across (not relative to its length)
               {'error_abs': 1e-3, 'how': 'keyword', 'scale': 1e3}]


def call_length(obj, t0, t1, opts, scale):
    if not opts:
        return obj.length(t0, t1)
    e = opts.get('error')
    e = None if e is None else e * scale
    if 'error_abs' in opts:
        e = opts['error_abs']
    d = opts.get('min_depth')
    if opts['how'] == 'positional':
        return obj.length(t0, t1, sp.LENGTH_ERROR if e is None else e, sp.LENGTH_MIN_DEPTH if d is None else d)
    kw = {}
    if e is not None:
        kw['error'] = e
    if d is not None:
        kw['min_depth'] = d
    return obj.length(t0, t1, **kw)


def check_segment(name, scale, cfg, acc, only=None, budget=None, rot=0, shift=0j, opts=None, usq=None, ts=None):
    seg = AB.make(name, scale, rot=rot, shift=shift)
    kind = type(seg).__name__[0]
    cfgname = 'scipy' if cfg else 'fallback'
    vals = {}
    branch = quad_branch(seg.bpoints()) if kind == 'Q' else kind
    counter = {'n': 0}
    if opts and not cfg and not budget:
        budget = 30_000_000
    if budget:
        orig_point = type(seg).point

        def counting_point(self, t):
            counter['n'] += 1
            if counter['n'] > budget:
                raise Budget()
            return orig_point(self, t)
        type(seg).point = counting_point
    try:
        for t0, t1 in itertools.combinations_with_replacement(TS if ts is None else ts, 2):
            if only and (t0, t1) not in only:
                continue
            case = {'what': 'segment', 'shape': name, 'scale': scale, 'config': cfg, 't0': t0, 't1': t1, 'rot': rot, 'shift': core.jz(shift)}
            if opts:
                case['opts'] = opts
            if usq is not None:
                case['use_scipy_quad'] = usq
            if ts is not None:
                case['near_ends'] = True
            counter['n'] = 0
            try:
                fresh = AB.make(name, scale, rot=rot, shift=shift)       # fresh object: no cache from earlier intervals
                r = outcome(lambda: call_length(fresh, t0, t1, opts, scale))
            except Budget:
                acc.caps_hit['fallback point-evaluation budget %d' % budget] += 1
                acc.filt('budget')
                continue
            lo, up, q, z = truth(seg, name, t0, t1)
            acc.case(case, cls='%s/%s/%s' % (cfgname, branch, 'speed_zero' if z else 'regular') if not opts else
                     'options/%s/%s' % (cfgname, opts['how']), nontrivial=t0 < t1)
            sig = {'kind': kind, 'config': cfgname, 'branch': branch, 'speed_zero_inside': z,
                   'interval': 'full' if (t0, t1) == (0.0, 1.0) else ('empty' if t0 == t1 else 'sub')}
            if opts:
                sig['options'] = sorted(k for k in opts if k != 'how')
            if usq is not None:
                sig['module_setting'] = 'USE_SCIPY_QUAD=%r' % usq
            if scale <= 1e-6:
                sig['tiny_drawing'] = True
            if r[0] != 'ok':
                acc.violation('length_raises', dict(sig, exc=r[1]), case, observed=r)
                continue
            v = r[1]
            try:
                v = float(v)
            except Exception:
                acc.violation('length_not_a_real_number', sig, case, observed=r)
                continue
            vals[(t0, t1)] = v
            if not math.isfinite(v) or v < -1e-13 * scale:
                acc.violation('length_not_finite_nonnegative', sig, case, observed=v, expected='in [%r, %r]' % (lo, up))
                continue
            if t0 == t1:
                if abs(v) > 1e-13 * scale:
                    acc.violation('empty_interval_nonzero', sig, case, observed=v, expected=0)
                continue
            rel = 5e-3 if z else 1e-6
            floor = 1e-13 * scale + 64 * 2.0 ** -52 * abs(shift)
            if opts and opts.get('error_abs'):
                floor += 2 * opts['error_abs'] if cfg else opts['error_abs'] * max(1, (counter['n'] + 1) // 2)
            if opts and opts.get('error'):
                # the requested absolute error, once per leaf of the fallback's subdivision (counted), once for quad
                floor += opts['error'] * scale * (max(1, (counter['n'] + 1) // 2) if not cfg else 2)
            if not (lo * (1 - rel) - floor <= v <= up * (1 + rel) + floor):
                acc.violation('outside_bracket', sig, case, observed=v, expected=[lo, up], detail='rel tol %g' % rel)
            elif q is not None and not abs(v - q) <= rel * max(q, v) + floor:
                acc.violation('disagrees_with_quadrature', sig, case, observed=v, expected=q)
        # additivity
        if not only:
            for t0, tm, t1 in itertools.combinations(TS if ts is None else ts, 3):
                if (t0, t1) in vals and (t0, tm) in vals and (tm, t1) in vals:
                    whole, parts = vals[(t0, t1)], vals[(t0, tm)] + vals[(tm, t1)]
                    z = refgeom_zero(seg, t0, t1)
                    rel = 5e-3 if z else 1e-6
                    acc.case({'what': 'additivity', 'shape': name, 'scale': scale, 'config': cfg, 't': [t0, tm, t1]},
                             cls='additivity/%s' % cfgname)
                    if not abs(whole - parts) <= rel * max(whole, parts) + 1e-13 * scale:
                        acc.violation('not_additive', dict({'kind': kind, 'config': cfgname, 'branch': branch}, **({'tiny_drawing': True} if scale <= 1e-6 else {})),
                                      {'what': 'segment', 'shape': name, 'scale': scale, 'config': cfg, 't0': t0, 't1': t1, 'tm': tm, 'rot': rot, 'shift': core.jz(shift)},
                                      observed=[whole, parts])
    finally:
        if budget:
            type(seg).point = orig_point


def refgeom_zero(seg, t0, t1):
    if isinstance(seg, Arc) or isinstance(seg, Line):
        return False
    pts = list(seg.bpoints())
    return refgeom.speed_zero_in(pts, t0, t1) or refgeom.near_speed_zero(pts, t0, t1)


PATH_WORDS = [('L_diagonal', 'Q_generic'), ('C_arch', 'A_ellipse_rot30'), ('Q_foldback_real', 'C_cusp'),
              ('A_circle_small_ccw', 'L_vertical', 'C_sshape'), ('C_loop',), ('Q_nondyadic', 'C_nondyadic', 'L_nondyadic')]


def check_paths(cfg, acc):
    cfgname = 'scipy' if cfg else 'fallback'
    for w in PATH_WORDS:
        segs = [AB.make(n, 2.0 ** -6 if not cfg else 1.0) for n in w]
        p = AB.derive_path(Path(*segs))
        exp = sum(AB.make(n, 2.0 ** -6 if not cfg else 1.0).length() for n in w)
        r = outcome(lambda: p.length())
        case = {'what': 'path', 'word': list(w), 'config': cfg}
        acc.case(case, cls='path/%s' % cfgname)
        if r[0] != 'ok' or not abs(r[1] - exp) <= 1e-9 * exp:
            acc.violation('path_length_not_sum', {'config': cfgname}, case, observed=r, expected=exp)
        for T0, T1 in ((0.2, 0.7), (0.0, 0.5), (0.35, 1.0)):
            r = outcome(lambda: p.length(T0, T1))
            # reference through the path's own T2t (C05 decides that map)
            (k0, u0), (k1, u1) = p.T2t(T0), p.T2t(T1)
            fresh = [AB.make(n, 2.0 ** -6 if not cfg else 1.0) for n in w]
            if k0 == k1:
                e = fresh[k0].length(u0, u1)
            else:
                e = fresh[k0].length(u0, 1) + sum(fresh[k].length() for k in range(k0 + 1, k1)) + fresh[k1].length(0, u1)
            acc.case(dict(case, T=[T0, T1]), cls='path_sub/%s' % cfgname)
            if r[0] != 'ok' or not abs(r[1] - e) <= 1e-9 * max(e, 1e-300):
                acc.violation('path_sublength', {'config': cfgname}, dict(case, T=[T0, T1]), observed=r, expected=e)


def check_long_paths(cfg, acc):
    """long paths (dashed / hatched line sets, long chains): Path.length == sum of the segments' lengths"""
    cfgname = 'scipy' if cfg else 'fallback'
    for n in (5, 23, 24, 25, 40, 100):
        for kind in ('dashes', 'polyline', 'hatch', 'mixed'):
            segs = []
            for i in range(n):
                if kind == 'dashes':
                    segs.append(Line(complex(3 * i, 0.5 * i), complex(3 * i + 2, 0.5 * i + 0.25)))
                elif kind == 'polyline':
                    segs.append(Line(complex(i, (i * i) % 7), complex(i + 1, ((i + 1) * (i + 1)) % 7)))
                elif kind == 'hatch':
                    segs.append(Line(complex(i, 0), complex(i + 5, 10)) if i % 2 == 0 else Line(complex(i + 5, 10), complex(i, 0.5)))
                else:
                    segs.append(Line(complex(i, 0), complex(i + 0.5, 1)) if i % 5 else
                                QuadraticBezier(complex(i, 0), complex(i + 1, 2), complex(i + 2, 0)))
            p = AB.derive_path(Path(*segs))
            exp = sum(AB.fresh_copy(s_).length() for s_ in segs)
            case = {'what': 'long_path', 'n': n, 'kind': kind, 'config': cfg}
            acc.case(case, cls='long_path/%s' % cfgname)
            r = outcome(lambda: p.length())
            if r[0] != 'ok' or not abs(r[1] - exp) <= 1e-9 * exp:
                acc.violation('path_length_not_sum', {'config': cfgname, 'long': n >= 24, 'kind': kind}, case, observed=r, expected=exp)


def tier_params(tier, seed):
    if tier == 'quick':
        return {'scipy_scales': [1e-9, 1e-3, 1.0, 1e3, 1e6, 1e9], 'fallback_scales': [1e-9, 1e-3, 2.0 ** -6], 'budget': 3_000_000}
    return {'scipy_scales': [1e-12, 1e-9, 1e-6, 1e-3, 1e-1, 1.0, 1e3, 1e6, 1e9], 'fallback_scales': [1e-9, 1e-6, 1e-3, 2.0 ** -6, 1.0], 'budget': 30_000_000}


def names():
    return list(AB.LINES) + list(AB.QUADS) + list(AB.CUBICS) + list(AB.ARCS)


def shards(tier, seed):
    tp = tier_params(tier, seed)
    out = []
    for cfg, key in ((False, 'fallback_scales'), (True, 'scipy_scales')):
        for sc in sorted(tp[key], reverse=True):
            for n in names():
                for rot in ROTS:
                    out.append({'what': 'segment', 'config': cfg, 'scale': sc, 'shape': n, 'rot': rot})
        out.append({'what': 'paths', 'config': cfg})
        # the same paths after loose-accuracy measurements / changed-and-restored module settings / as strict arcs
        out += [{'what': 'paths', 'config': cfg, 'pprov': pv} for pv in AB.PATH_PROVENANCES
                if pv in ('measured', 'reversed_twice', 'loosely_measured', 'segments_loosely_measured', 'loosely_measured_reversed_twice',
                          'strict_arcs', 'module_settings_changed_and_restored')]
    # curves far from the origin (tests that tolerances are relative to the curve, not to its coordinates)
    for n in names():
        if n not in AB.ARCS:
            out.append({'what': 'segment', 'config': True, 'scale': 1.0, 'shape': n, 'rot': 0, 'shift': [3e5, 2e5]})
        out.append({'what': 'segment', 'config': True, 'scale': 1.0, 'shape': n, 'rot': 0, 'shift': [1e6, 1e6]})
        out.append({'what': 'segment', 'config': True, 'scale': 1.0, 'shape': n, 'rot': 0, 'near_ends': True})
        out.append({'what': 'segment', 'config': False, 'scale': 2.0 ** -6, 'shape': n, 'rot': 0, 'near_ends': True})
    # the same segments as the library hands them out (derived objects: numpy scalars, warm caches, ...)
    out += AB.provenance_shards(out, tier, lambda d: d['what'] == 'segment' and d['rot'] in (0, 37) and 'shift' not in d and
                                d['scale'] == (1.0 if d['config'] else 2.0 ** -6))
    # the documented module-level switch USE_SCIPY_QUAD turned off (arcs; scipy itself still installed)
    for n in AB.ARCS:
        for rot in (0, 37):
            out.append({'what': 'segment', 'config': True, 'scale': 2.0 ** -6, 'shape': n, 'rot': rot, 'use_scipy_quad': False})
    # non-default error / min_depth, keyword and positional
    for cfg in (False, True):
        for n in names():
            for oi in range(1, len(LENGTH_OPTS)):
                for rot in ((0,) if tier == 'quick' else (0, 37)):
                    if 'scale' in LENGTH_OPTS[oi]:
                        if cfg:
                            out.append({'what': 'segment', 'config': cfg, 'scale': LENGTH_OPTS[oi]['scale'], 'shape': n, 'rot': rot, 'opts': oi})
                        continue
                    out.append({'what': 'segment', 'config': cfg, 'scale': 1.0 if cfg else 2.0 ** -6, 'shape': n, 'rot': rot, 'opts': oi})
    return out


def run_shard(desc, tier, seed):
    acc = core.Acc()
    tp = tier_params(tier, seed)
    old = sp._quad_available
    old_usq = sp.USE_SCIPY_QUAD
    sp._quad_available = bool(desc['config'])
    if desc.get('use_scipy_quad') is not None:
        sp.USE_SCIPY_QUAD = desc['use_scipy_quad']
    try:
        if desc['what'] == 'paths':
            check_paths(desc['config'], acc)
            check_long_paths(desc['config'], acc)
        else:
            check_segment(desc['shape'], desc['scale'], desc['config'], acc,
                          budget=None if desc['config'] else tp['budget'], rot=desc.get('rot', 0),
                          shift=complex(*desc.get('shift', [0, 0])), opts=LENGTH_OPTS[desc.get('opts', 0)], usq=desc.get('use_scipy_quad'),
                          ts=TS_NEAR_ENDS if desc.get('near_ends') else None)
    finally:
        sp._quad_available = old
        sp.USE_SCIPY_QUAD = old_usq
    return acc


def expected_classes(tier):
    out = []
    for c in ('scipy', 'fallback'):
        out += ['%s/L/regular' % c, '%s/C/regular' % c, '%s/C/speed_zero' % c, '%s/A/regular' % c,
                '%s/Q:linear/regular' % c, '%s/Q:closed_form/regular' % c, '%s/Q:collinear_antiparallel/speed_zero' % c,
                '%s/Q:collinear_parallel/regular' % c, 'additivity/%s' % c, 'path/%s' % c]
    return out


def finalize(acc):
    pass


def space(tier, seed):
    tp = tier_params(tier, seed)
    return {'length_options': LENGTH_OPTS, 'shapes': names(), 't_grid': TS, 'pairs': 'all t0 <= t1', 'scales': {'scipy': tp['scipy_scales'], 'fallback': tp['fallback_scales']},
            'fallback_point_budget': tp['budget'], 'paths': PATH_WORDS, 'rotations': ROTS}


def replay(case):
    acc = core.ReplayAcc()
    old = sp._quad_available
    old_usq = sp.USE_SCIPY_QUAD
    sp._quad_available = bool(case['config'])
    if case.get('use_scipy_quad') is not None:
        sp.USE_SCIPY_QUAD = case['use_scipy_quad']
    try:
        if case['what'] == 'long_path':
            check_long_paths(case['config'], acc)
            acc.vlist = [v for v in acc.vlist if v['case'] == case]
        elif case['what'] == 'path':
            check_paths(case['config'], acc)
        elif 'tm' in case:
            check_segment(case['shape'], case['scale'], case['config'], acc, rot=case.get('rot', 0), shift=complex(*case.get('shift', [0, 0])), opts=case.get('opts'), usq=case.get('use_scipy_quad'), ts=TS_NEAR_ENDS if case.get('near_ends') else None)
            acc.vlist = [v for v in acc.vlist if v['clause'] == 'not_additive']
        else:
            check_segment(case['shape'], case['scale'], case['config'], acc, only=[(case['t0'], case['t1'])], rot=case.get('rot', 0), shift=complex(*case.get('shift', [0, 0])), opts=case.get('opts'), usq=case.get('use_scipy_quad'), ts=TS_NEAR_ENDS if case.get('near_ends') else None)
    finally:
        sp._quad_available = old
        sp.USE_SCIPY_QUAD = old_usq
    return acc.vlist
