"""C17  SVG flattening applies shape conversion and nested transforms per the SVG spec.

Product mode over documents: a tree  svg > [leaf, g1 > [leaf, g2 > [leaf]], g3 > [leaf]]
with every element kind as leaf, every pair of transforms from the alphabet on
g1/g2 (g3 and the leaves' own transforms rotate through the alphabet), read by
four readers: Document.paths(), Document.paths_from_group(g) for every group,
svg2paths (no transforms by design) and SaxDocument.flatten_all_paths().
Reference: mc/refsvg.py (own transform-list parser, spec geometry of the basic
shapes, own path-data interpreter).
"""
import itertools
import math
import os
import shutil
import tempfile
import warnings

import numpy as np

from mc import core, refsvg
from mc.enc import outcome

from svgpathtools import Document, SaxDocument, svg2paths, Path

ID = 'C17'
LEVEL = 'exploration'
RULE = ('documents = leaf kind x (g1 transform, g2 transform) pairs of the alphabet (own transforms rotate through it) x 4 '
        'readers; one case per (document, reader); non-trivial = at least one non-identity transform above a leaf; '
        'distinct = distinct (document, reader)')
ASSUMPTIONS = ['mc/refsvg.py: transform lists (SVG 1.1 7.6), basic shapes (chapter 9) and path data as the specification oracle',
               'geometry compared as point sets: distance of dense samples of each returned path to the reference polylines '
               'and back <= 1e-4*size (semantic errors are O(size)); returned-list order is not compared',
               'units, percentages, CSS, viewBox, nested svg, use are outside the property']

TRANSFORMS = [None, 'translate(3,-2)', 'translate(4)', 'scale(2)', 'scale(2,0.5)', 'rotate(30)', 'rotate(30,1,2)',
              'skewX(20)', 'skewY(-10)', 'matrix(1,.5,-.5,1,3,4)', 'translate(3,-2) scale(2)', 'rotate(30),translate(1 1)',
              'scale(-1,1)', 'scale(1,-1)',
              # the same operations in other legal spellings (reach the readers as own / sibling-group transforms)
              'translate( 3 , -2 )', 'scale(2 0.5)', 'rotate(30 1 2)', 'matrix(1 .5 -.5 1 3 4)', ' translate(3,-2)  scale(2) ',
              'rotate(-45)skewX(1e1)', 'translate(1e-1,2E0)', 'translate(0,0)', 'translate(5,0)', 'scale(0.5,1e0)',
              # legitimate transforms that are NOT the identity, only close to it
              'scale(1.000004)', 'rotate(0.0004)', 'translate(0.000000004, 0)', 'skewX(0.0005)', 'matrix(1 0 0 1.0000001 0 0)']

LEAVES = {
    'path_lines': ('path', {'d': 'M 1 1 L 5 2 L 4 6 z'}),
    'path_cubic': ('path', {'d': 'M1,1 C2,4 5,4 6,1 S 9,-2 10,1'}),
    'path_arc': ('path', {'d': 'M 2 3 A 3 2 25 1 0 6 5'}),
    'line': ('line', {'x1': '1', 'y1': '2', 'x2': '7', 'y2': '5'}),
    'polyline_open': ('polyline', {'points': '1,1 4,2 3,5 7,6'}),
    'polyline_closed': ('polyline', {'points': '1,1 4,2 3,5 1,1'}),
    'polygon_open': ('polygon', {'points': '1,1 5,1.5 4,5'}),
    'polygon_closed': ('polygon', {'points': '1,1 5,1.5 4,5 1,1'}),
    # legal spellings of the same kind of list (SVG 1.1 9.7.1): no integer part, trailing dot, exponents,
    # signs, a minus sign as the only separator, commas between pairs, line breaks and tabs
    'polyline_lexical': ('polyline', {'points': '.5,.25 4.,2. 3e0,5E-1 +7,+6 8-1 -2-3'}),
    'polygon_lexical': ('polygon', {'points': ' 1,1,5,1.5,4,5\n-.75 1.5e1\t2.5E+0,-.5e-1 '}),
    'rect_plain': ('rect', {'x': '1', 'y': '2', 'width': '6', 'height': '4'}),
    'rect_rx': ('rect', {'x': '1', 'y': '2', 'width': '6', 'height': '4', 'rx': '1.5'}),
    'rect_ry': ('rect', {'x': '1', 'y': '2', 'width': '6', 'height': '4', 'ry': '1'}),
    'rect_rx_ry': ('rect', {'x': '1', 'y': '2', 'width': '6', 'height': '4', 'rx': '2', 'ry': '0.5'}),
    'circle': ('circle', {'cx': '3', 'cy': '2', 'r': '2.5'}),
    'ellipse': ('ellipse', {'cx': '3', 'cy': '2', 'rx': '4', 'ry': '1.5'}),
}
THOROUGH_LEAVES = {
    'rect_defaults': ('rect', {'width': '6', 'height': '4'}),
    'circle_defaults': ('circle', {'r': '2.5'}),
    'line_defaults': ('line', {'x2': '7', 'y2': '5'}),
    'rect_big_radii': ('rect', {'x': '1', 'y': '2', 'width': '6', 'height': '4', 'rx': '5', 'ry': '3'}),
    'rect_big_rx_only': ('rect', {'x': '1', 'y': '2', 'width': '4', 'height': '12', 'rx': '5'}),
    'rect_big_ry_only': ('rect', {'x': '1', 'y': '2', 'width': '12', 'height': '4', 'ry': '5'}),
    'polyline_commas': ('polyline', {'points': '1 1,4 2,3 5'}),
    'path_relative': ('path', {'d': 'm1,1 l4,1 q2,3 -1,4 t-3,1 a2 1 0 0110 10z'}),
}

NS = 'http://www.w3.org/2000/svg'


def attrs(d):
    return ''.join(' %s="%s"' % (k, v) for k, v in d.items())


def build_doc(kind, ta, tb, leaves):
    """returns (xml text, list of leaf records {id, tag, attrib, chain (transform strings outermost first), groups})"""
    tag, at = leaves[kind]
    ti = TRANSFORMS.index(ta) + TRANSFORMS.index(tb)
    own = [TRANSFORMS[(ti + k * 3 + 1) % len(TRANSFORMS)] for k in range(4)]
    if ti % 3 == 1:
        # a top-level leaf whose ONLY transform is one of the near-identity ones (the composed matrix is then
        # within 1e-5 of the identity without being it)
        near = [t for t in TRANSFORMS if t and t.startswith(('scale(1.000004', 'rotate(0.0004', 'translate(0.000000004', 'skewX(0.0005', 'matrix(1 0 0 1.0000001'))]
        own[0] = near[(ti // 3) % len(near)]
    tc = TRANSFORMS[(ti + 5) % len(TRANSFORMS)]
    recs = []

    def leaf(i, chain, groups):
        a = dict(at)
        a['id'] = 'leaf%d' % i
        a['stroke'] = '#00%d' % i
        if own[i]:
            a['transform'] = own[i]
        if (ti + i) % 2 == 0:
            a['style'] = ['stroke-width:1;', 'fill:url(http://example.com/defs#g%d)' % i, 'fill:none'][(ti + i) % 3]
        recs.append({'id': a['id'], 'tag': tag, 'attrib': dict(at), 'chain': [t for t in chain + [own[i]] if t],
                     'groups': groups})
        return '<%s%s/>' % (tag, attrs(a))

    # style attributes in the spellings found in the wild (they carry no geometry, but every reader walks over them):
    # trailing semicolon, a value that itself contains a colon, empty, spaces
    STYLES = ['fill:none;stroke:#000;', 'fill:url(http://example.com/defs#grad);stroke-width:2', '', ' fill : red ; stroke-width : 2 ', 'stroke:#00f']

    def g(i, t):
        return '<g id="g%d"%s style="%s">' % (i, (' transform="%s"' % t) if t else '', STYLES[(ti + i) % len(STYLES)])
    # every third document also carries a transform on the root <svg> element (an ancestor of everything)
    troot = TRANSFORMS[(ti + 2) % 10] if ti % 3 == 0 else None
    base = [troot] if troot else []
    xml = '<?xml version="1.0"?>\n<svg xmlns="%s" width="100" height="100"%s>' % (NS, (' transform="%s"' % troot) if troot else '')
    # elements that are not shapes (text, image, metadata, unknown) may carry transforms of their own: they are
    # SIBLINGS of the leaves, so nothing of theirs applies to a leaf
    def other(tagname, k, body=''):
        t = TRANSFORMS[(ti + 7 + k) % len(TRANSFORMS)] or 'translate(100,40) rotate(-90)'
        return '<%s transform="%s" x="1" y="1">%s</%s>' % (tagname, t, body, tagname)
    xml += '<title>doc</title>' + other('text', 0, 'label') + leaf(0, base + [], [])
    xml += g(1, ta) + other('text', 1, 'first') + leaf(1, base + [ta], ['g1']) + g(2, tb) + other('image', 2) + \
        leaf(2, base + [ta, tb], ['g1', 'g2']) + '</g></g>'
    xml += g(3, tc) + other('foreignObject', 3) + other('unknownElement', 4) + leaf(3, base + [tc], ['g3']) + '</g>'
    xml += '</svg>'
    return xml, recs


def ref_matrix(chain):
    M = [row[:] for row in refsvg.IDENT]
    for t in chain:
        M = refsvg._mat_mul(M, refsvg.transform_list(t))
    return M


def ref_polylines(rec, with_transforms=True):
    polys = refsvg.shape_polylines(rec['tag'], rec['attrib'])
    if not with_transforms:
        return polys
    M = ref_matrix(rec['chain'])
    return [[refsvg.apply_matrix(M, z) for z in pl] for pl in polys]


def seg_arrays(polys):
    A, B = [], []
    for pl in polys:
        P = np.asarray(pl, dtype=complex)
        if len(P) == 1:
            A.append(P)
            B.append(P)
        else:
            A.append(P[:-1])
            B.append(P[1:])
    return np.concatenate(A), np.concatenate(B)


def dist_points_polylines(Q, polys):
    """min distance of every query point to the union of the polylines (vectorised)"""
    a, b = seg_arrays(polys)
    ab = b - a
    den = ab.real ** 2 + ab.imag ** 2
    den = np.where(den == 0, 1.0, den)
    Q = np.asarray(Q, dtype=complex)[:, None]
    d = Q - a[None, :]
    t = np.clip((d.real * ab.real[None, :] + d.imag * ab.imag[None, :]) / den[None, :], 0.0, 1.0)
    return np.abs(a[None, :] + t * ab[None, :] - Q).min(axis=1)


def path_polylines(p, n=600):
    from svgpathtools import Line
    out = []
    for s in p:
        if isinstance(s, Line):
            out.append([s.start, s.end])
            continue
        ts = np.linspace(0.0, 1.0, n + 1)
        out.append(list(s.poly()(ts)) if hasattr(s, 'poly') else list(s.point(ts)))
    return out


def geometry_matches(p, polys, size):
    from svgpathtools import Line as _Line
    got = path_polylines(p)
    # polylines of 600 chords per curved segment: sagitta <= (L/600)^2/(8 r) stays below this
    # tolerance for the shapes of the alphabet; semantic errors are O(size)
    tol = 5e-4 * size
    if all(isinstance(s_, _Line) for s_ in p):
        # straight shapes have no chord error: their vertices must be where the matrices put them
        tol = 1e-9 * size
    q1 = [z for pl in got for z in (pl[::max(1, len(pl) // 50)] + [pl[-1]])]
    d1 = dist_points_polylines(q1, polys)
    if d1.max() > tol:
        return 'returned path leaves the reference shape at %r' % (q1[int(d1.argmax())],)
    q2 = [z for pl in polys for z in (list(pl[::max(1, len(pl) // 60)]) + [pl[-1]])]
    d2 = dist_points_polylines(q2, got)
    if d2.max() > tol:
        return 'reference point %r is not on the returned path' % (q2[int(d2.argmax())],)
    return None


def tclass(chain):
    if not chain:
        return 'no_transform'
    names = sorted(set(t.split('(')[0].strip(' ,') for c in chain for t in c.split(')') if t.strip(' ,')))
    return '+'.join(names)


def check_doc(kind, ta, tb, acc, tmpdir, leaves, readers=None):
    xml, recs = build_doc(kind, ta, tb, leaves)
    fn = os.path.join(tmpdir, 'doc.svg')
    with open(fn, 'w') as f:
        f.write(xml)
    byid = {r['id']: r for r in recs}
    case0 = {'kind': kind, 'ta': ta, 'tb': tb}
    tagk = leaves[kind][0]
    has_arc = tagk in ('circle', 'ellipse') or kind.startswith('rect_') or kind in ('path_arc', 'path_relative')

    def judge(reader, p, rec, with_tf, case):
        polys = ref_polylines(rec, with_tf)
        pts = [z for pl in polys for z in pl]
        size = max(max(abs(z) for z in pts), 1.0)
        sig = {'reader': reader, 'element': kind if tagk == 'rect' else tagk,
               'transformed': bool(rec['chain']) if with_tf else 'ignored_by_design'}
        if not isinstance(p, Path) or len(p) == 0:
            acc.violation('not_a_path', sig, case, observed=repr(p)[:200])
            return
        m = geometry_matches(p, polys, size)
        if m:
            acc.violation('geometry_differs_from_reference', sig, case, observed=m, expected='reference shape %s chain %r' % (rec['tag'], rec['chain']))
            return
        # the returned object must also be a healthy Path: its own bbox / length agree with its own points (a path
        # that came out of a document carries extra attributes - .transform, .element - that nothing may apply twice)
        own = [z for pl in path_polylines(p, 120) for z in pl]
        ex_ = (min(z.real for z in own), max(z.real for z in own), min(z.imag for z in own), max(z.imag for z in own))
        bb = outcome(lambda: tuple(float(x) for x in p.bbox()))
        plen = sum(abs(b - a) for pl in path_polylines(p, 120) for a, b in zip(pl, pl[1:]))
        ln = outcome(lambda: float(p.length()))
        if bb[0] != 'ok' or max(abs(a - b) for a, b in zip(bb[1], ex_)) > 2e-3 * size or ln[0] != 'ok' or not abs(ln[1] - plen) <= 2e-3 * max(plen, 1e-300):
            acc.violation('returned_path_inconsistent_with_its_own_points', dict(sig, query='bbox' if (bb[0] != 'ok' or max(abs(a - b) for a, b in zip(bb[1], ex_)) > 2e-3 * size) else 'length'),
                          case, observed=[bb, ln], expected=[ex_, plen])
            return
        if reader.startswith('Document') and with_tf:
            M = ref_matrix(rec['chain'])
            T = getattr(p, 'transform', None)
            if T is None or not np.allclose(np.asarray(T, dtype=float), np.asarray(M), rtol=0, atol=1e-9 * (1 + np.abs(np.asarray(M)).max())):
                acc.violation('path_transform_attribute_wrong', sig, case, observed=None if T is None else np.asarray(T).tolist(), expected=M)

    nontriv = bool(ta or tb)
    # ---- Document.paths()
    if readers is None or 'Document.paths' in readers:
        case = dict(case0, reader='Document.paths')
        acc.case(case, cls='Document.paths/%s' % kind, nontrivial=nontriv)
        with warnings.catch_warnings():
            warnings.simplefilter('ignore')
            r = outcome(lambda: Document(fn).paths())
        if r[0] != 'ok':
            acc.violation('reader_raises', {'reader': 'Document.paths', 'element': kind if tagk == 'rect' else tagk, 'exc': r[1]}, case, observed=r)
        else:
            got = {}
            for p in r[1]:
                got.setdefault(p.element.get('id'), []).append(p)
            if sorted(got) != sorted(byid) or any(len(v) != 1 for v in got.values()):
                acc.violation('wrong_set_of_elements', {'reader': 'Document.paths', 'element': tagk}, case, observed=sorted(got), expected=sorted(byid))
            else:
                for i, rec in byid.items():
                    judge('Document.paths', got[i][0], rec, True, case)
    # ---- Document.paths_from_group
    if readers is None or 'Document.paths_from_group' in readers:
        for gid, members in (('g1', ['leaf1', 'leaf2']), ('g2', ['leaf2']), ('g3', ['leaf3'])):
            case = dict(case0, reader='Document.paths_from_group', group=gid)
            acc.case(case, cls='Document.paths_from_group/%s' % kind, nontrivial=nontriv)

            def run():
                d = Document(fn)
                ge = [e for e in d.tree.getroot().iter('{%s}g' % NS) if e.get('id') == gid][0]
                return d.paths_from_group(ge)
            with warnings.catch_warnings():
                warnings.simplefilter('ignore')
                r = outcome(run)
            if r[0] != 'ok':
                acc.violation('reader_raises', {'reader': 'Document.paths_from_group', 'element': kind if tagk == 'rect' else tagk, 'exc': r[1]}, case, observed=r)
                continue
            ids = sorted(p.element.get('id') for p in r[1])
            if ids != sorted(members):
                acc.violation('wrong_set_of_elements', {'reader': 'Document.paths_from_group', 'group': gid}, case, observed=ids, expected=members)
                continue
            for p in r[1]:
                judge('Document.paths_from_group', p, byid[p.element.get('id')], True, case)
    # ---- svg2paths
    if readers is None or 'svg2paths' in readers:
        case = dict(case0, reader='svg2paths')
        acc.case(case, cls='svg2paths/%s' % kind, nontrivial=nontriv)
        with warnings.catch_warnings():
            warnings.simplefilter('ignore')
            r = outcome(lambda: svg2paths(fn))
        if r[0] != 'ok':
            acc.violation('reader_raises', {'reader': 'svg2paths', 'element': kind if tagk == 'rect' else tagk, 'exc': r[1]}, case, observed=r)
        else:
            paths, atts = r[1]
            ids = [a.get('id') for a in atts]
            if sorted(ids) != sorted(byid):
                acc.violation('wrong_set_of_elements', {'reader': 'svg2paths', 'element': tagk}, case, observed=ids, expected=sorted(byid))
            else:
                for p, a in zip(paths, atts):
                    judge('svg2paths', p, byid[a['id']], False, case)
    # ---- SaxDocument
    if readers is None or 'SaxDocument' in readers:
        case = dict(case0, reader='SaxDocument')
        acc.case(case, cls='SaxDocument/%s' % kind, nontrivial=nontriv)

        def run_sax():
            sd = SaxDocument(fn)
            return [v.get('id') for v in sd.tree], sd.flatten_all_paths()
        with warnings.catch_warnings():
            warnings.simplefilter('ignore')
            r = outcome(run_sax)
        if r[0] != 'ok':
            acc.violation('reader_raises', {'reader': 'SaxDocument', 'element': kind if tagk == 'rect' else tagk, 'exc': r[1]}, case, observed=r)
        else:
            ids, paths = r[1]
            if sorted(ids) != sorted(byid) or len(paths) != len(ids):
                acc.violation('wrong_set_of_elements', {'reader': 'SaxDocument', 'element': tagk}, case, observed=ids, expected=sorted(byid))
            else:
                for i, p in zip(ids, paths):
                    judge('SaxDocument', p, byid[i], True, case)
    # ---- SaxDocument written out again (SaxDocument.save keeps d, the composed matrix, fill and stroke) and re-read
    if readers is None or 'SaxDocument.save+SaxDocument' in readers:
        case = dict(case0, reader='SaxDocument.save+SaxDocument')
        acc.case(case, cls='SaxDocument.save/%s' % kind, nontrivial=nontriv)

        def run_sax_again():
            sd = SaxDocument(fn)
            fn2 = os.path.join(tmpdir, 'doc_saved_by_sax.svg')
            sd.save(fn2)
            sd2 = SaxDocument(fn2)
            return [v.get('stroke') for v in sd2.tree], sd2.flatten_all_paths()
        with warnings.catch_warnings():
            warnings.simplefilter('ignore')
            r = outcome(run_sax_again)
        if r[0] != 'ok':
            acc.violation('reader_raises', {'reader': 'SaxDocument.save+SaxDocument', 'element': kind if tagk == 'rect' else tagk, 'exc': r[1]}, case, observed=r)
        else:
            strokes, paths = r[1]
            ids = ['leaf' + str(st)[-1] if st else None for st in strokes]
            if sorted(map(str, ids)) != sorted(byid) or len(paths) != len(ids):
                acc.violation('wrong_set_of_elements', {'reader': 'SaxDocument.save+SaxDocument', 'element': tagk}, case, observed=ids, expected=sorted(byid))
            else:
                for i, p in zip(ids, paths):
                    judge('SaxDocument.save+SaxDocument', p, byid[i], True, case)


def tier_leaves(tier):
    d = dict(LEAVES)
    d.update(THOROUGH_LEAVES)
    return d


def tier_transforms(tier):
    return TRANSFORMS if tier == 'thorough' else TRANSFORMS[:10]


def shards(tier, seed):
    return [{'kind': k, 'ta': ta} for k in tier_leaves(tier) for ta in tier_transforms(tier)]


def run_shard(desc, tier, seed):
    acc = core.Acc()
    tmp = tempfile.mkdtemp(prefix='verif_c17_')
    try:
        for tb in tier_transforms(tier):
            check_doc(desc['kind'], desc['ta'], tb, acc, tmp, tier_leaves(tier))
    finally:
        shutil.rmtree(tmp, ignore_errors=True)
    return acc


def expected_classes(tier):
    return ['%s/%s' % (r, k) for r in ('Document.paths', 'Document.paths_from_group', 'svg2paths', 'SaxDocument') for k in LEAVES]


def space(tier, seed):
    return {'leaf_kinds': list(tier_leaves(tier)), 'transform_alphabet': tier_transforms(tier),
            'tree': 'svg > [leaf0, g1(ta) > [leaf1, g2(tb) > [leaf2]], g3(tc) > [leaf3]]; (ta, tb) all pairs; tc and own transforms rotate through the alphabet',
            'readers': ['Document.paths', 'Document.paths_from_group (g1, g2, g3)', 'svg2paths', 'SaxDocument.flatten_all_paths']}


def replay(case):
    acc = core.ReplayAcc()
    tmp = tempfile.mkdtemp(prefix='verif_c17_')
    try:
        leaves = dict(LEAVES)
        leaves.update(THOROUGH_LEAVES)
        check_doc(case['kind'], case['ta'], case['tb'], acc, tmp, leaves, readers=[case['reader']])
        if 'group' in case:
            acc.vlist = [v for v in acc.vlist if v['case'].get('group') == case['group']]
    finally:
        shutil.rmtree(tmp, ignore_errors=True)
    return acc.vlist
