"""C17  SVG flattening applies shape conversion and nested transforms per the SVG spec.

Product mode over documents: a tree  svg > [leaf, g1 > [leaf, g2 > [leaf]], g3 > [leaf]]
with every element kind as leaf, every pair of transforms from the alphabet on
g1/g2 (g3 and the leaves' own transforms rotate through the alphabet), read by
four readers: Document.paths(), Document.paths_from_group(g) for every group,
svg2paths (no transforms by design) and SaxDocument.flatten_all_paths().
Reference: mc/refsvg.py (own transform-list parser, spec geometry of the basic
shapes, own path-data interpreter).
"""
import itertools
import math
import os
import shutil
import tempfile
import warnings

import numpy as np

from mc import core, refsvg
from mc.enc import outcome

from svgpathtools import Document, SaxDocument, svg2paths, Path

ID = 'C17'
LEVEL = 'exploration'
RULE = ('documents = leaf kind x (g1 transform, g2 transform) pairs of the alphabet (own transforms rotate through it) x 4 '
        'readers; one case per (document, reader); non-trivial = at least one non-identity transform above a leaf; '
        'distinct = distinct (document, reader)')
ASSUMPTIONS = ['mc/refsvg.py: transform lists (SVG 1.1 7.6), basic shapes (chapter 9) and path data as the specification oracle',
               'geometry compared as point sets: distance of dense samples of each returned path to the reference polylines '
               'and back <= 1e-4*size (semantic errors are O(size)); returned-list order is not compared',
               'units, percentages, CSS, viewBox, nested svg, use are outside the property']

TRANSFORMS = [None, 'translate(3,-2)', 'translate(4)', 'scale(2)', 'scale(2,0.5)', 'rotate(30)', 'rotate(30,1,2)',
              'skewX(20)', 'skewY(-10)', 'matrix(1,.5,-.5,1,3,4)', 'translate(3,-2) scale(2)', 'rotate(30),translate(1 1)',
              'scale(-1,1)', 'scale(1,-1)',
              # the same operations in other legal spellings (reach the readers as own / sibling-group transforms)
              'translate( 3 , -2 )', 'scale(2 0.5)', 'rotate(30 1 2)', 'matrix(1 .5 -.5 1 3 4)', ' translate(3,-2)  scale(2) ',
              'rotate(-45)skewX(1e1)', 'translate(1e-1,2E0)', 'translate(0,0)', 'translate(5,0)', 'scale(0.5,1e0)',
              # legitimate transforms that are NOT the identity, only close to it
              'scale(1.000004)', 'rotate(0.0004)', 'translate(0.000000004, 0)', 'skewX(0.0005)', 'matrix(1 0 0 1.0000001 0 0)']

LEAVES = {
    'path_lines': ('path', {'d': 'M 1 1 L 5 2 L 4 6 z'}),
    'path_cubic': ('path', {'d': 'M1,1 C2,4 5,4 6,1 S 9,-2 10,1'}),
    'path_arc': ('path', {'d': 'M 2 3 A 3 2 25 1 0 6 5'}),
    'line': ('line', {'x1': '1', 'y1': '2', 'x2': '7', 'y2': '5'}),
    'polyline_open': ('polyline', {'points': '1,1 4,2 3,5 7,6'}),
    'polyline_closed': ('polyline', {'points': '1,1 4,2 3,5 1,1'}),
    'polygon_open': ('polygon', {'points': '1,1 5,1.5 4,5'}),
    'polygon_closed': ('polygon', {'points': '1,1 5,1.5 4,5 1,1'}),
    # legal spellings of the same kind of list (SVG 1.1 9.7.1): no integer part, trailing dot, exponents,
    # signs, a minus sign as the only separator, commas between pairs, line breaks and tabs
    'polyline_lexical': ('polyline', {'points': '.5,.25 4.,2. 3e0,5E-1 +7,+6 8-1 -2-3'}),
    'polygon_lexical': ('polygon', {'points': ' 1,1,5,1.5,4,5\n-.75 1.5e1\t2.5E+0,-.5e-1 '}),
    # drawings a thousand million times smaller, and shapes that ALMOST close (last point 1e-9 from the first)
    'polyline_tiny': ('polyline', {'points': '1e-9,1e-9 4e-9,2e-9 3e-9,5e-9 7e-9,6e-9'}),
    'polyline_almost_closed': ('polyline', {'points': '1,1 4,2 3,5 1.000000001,1'}),
    'path_tiny_open': ('path', {'d': 'M 1e-9 1e-9 L 5e-9 2e-9 L 4e-9 6e-9'}),
    'path_almost_closed': ('path', {'d': 'M 1 1 L 5 2 L 4 6 L 1.000000001 1.0000000005'}),
    'line_tiny': ('line', {'x1': '1e-9', 'y1': '2e-9', 'x2': '7e-9', 'y2': '5e-9'}),
    'rect_plain': ('rect', {'x': '1', 'y': '2', 'width': '6', 'height': '4'}),
    'rect_rx': ('rect', {'x': '1', 'y': '2', 'width': '6', 'height': '4', 'rx': '1.5'}),
    'rect_ry': ('rect', {'x': '1', 'y': '2', 'width': '6', 'height': '4', 'ry': '1'}),
    'rect_rx_ry': ('rect', {'x': '1', 'y': '2', 'width': '6', 'height': '4', 'rx': '2', 'ry': '0.5'}),
    'circle': ('circle', {'cx': '3', 'cy': '2', 'r': '2.5'}),
    'ellipse': ('ellipse', {'cx': '3', 'cy': '2', 'rx': '4', 'ry': '1.5'}),
}
THOROUGH_LEAVES = {
    'rect_defaults': ('rect', {'width': '6', 'height': '4'}),
    'circle_defaults': ('circle', {'r': '2.5'}),
    'line_defaults': ('line', {'x2': '7', 'y2': '5'}),
    'rect_big_radii': ('rect', {'x': '1', 'y': '2', 'width': '6', 'height': '4', 'rx': '5', 'ry': '3'}),
    'rect_big_rx_only': ('rect', {'x': '1', 'y': '2', 'width': '4', 'height': '12', 'rx': '5'}),
    'rect_big_ry_only': ('rect', {'x': '1', 'y': '2', 'width': '12', 'height': '4', 'ry': '5'}),
    'polyline_commas': ('polyline', {'points': '1 1,4 2,3 5'}),
    'path_relative': ('path', {'d': 'm1,1 l4,1 q2,3 -1,4 t-3,1 a2 1 0 0110 10z'}),
}

NS = 'http://www.w3.org/2000/svg'


def attrs(d):
    return ''.join(' %s="%s"' % (k, v) for k, v in d.items())


def build_doc(kind, ta, tb, leaves):
    """returns (xml text, list of leaf records {id, tag, attrib, chain (transform strings outermost first), groups})"""
    tag, at = leaves[kind]
    ti = TRANSFORMS.index(ta) + TRANSFORMS.index(tb)
    own = [TRANSFORMS[(ti + k * 3 + 1) % len(TRANSFORMS)] for k in range(4)]
    if ti % 3 == 1:
        # a top-level leaf whose ONLY transform is one of the near-identity ones (the composed matrix is then
        # within 1e-5 of the identity without being it)
        near = [t for t in TRANSFORMS if t and t.startswith(('scale(1.000004', 'rotate(0.0004', 'translate(0.000000004', 'skewX(0.0005', 'matrix(1 0 0 1.0000001'))]
        own[0] = near[(ti // 3) % len(near)]
    tc = TRANSFORMS[(ti + 5) % len(TRANSFORMS)]
    recs = []

    def leaf(i, chain, groups):
        a = dict(at)
        a['id'] = 'leaf%d' % i
        a['stroke'] = '#00%d' % i
        if own[i]:
            a['transform'] = own[i]
        if (ti + i) % 2 == 0:
            a['style'] = ['stroke-width:1;', 'fill:url(http://example.com/defs#g%d)' % i, 'fill:none'][(ti + i) % 3]
        recs.append({'id': a['id'], 'tag': tag, 'attrib': dict(at), 'chain': [t for t in chain + [own[i]] if t],
                     'groups': groups})
        return '<%s%s/>' % (tag, attrs(a))

    # style attributes in the spellings found in the wild (they carry no geometry, but every reader walks over them):
    # trailing semicolon, a value that itself contains a colon, empty, spaces
    STYLES = ['fill:none;stroke:#000;', 'fill:url(http://example.com/defs#grad);stroke-width:2', '', ' fill : red ; stroke-width : 2 ', 'stroke:#00f']

    def g(i, t):
        return '<g id="g%d"%s style="%s">' % (i, (' transform="%s"' % t) if t else '', STYLES[(ti + i) % len(STYLES)])
    # every third document also carries a transform on the root <svg> element (an ancestor of everything)
    troot = TRANSFORMS[(ti + 2) % 10] if ti % 3 == 0 else None
    base = [troot] if troot else []
    xml = '<?xml version="1.0"?>\n<svg xmlns="%s" width="100" height="100"%s>' % (NS, (' transform="%s"' % troot) if troot else '')
    # elements that are not shapes (text, image, metadata, unknown) may carry transforms of their own: they are
    # SIBLINGS of the leaves, so nothing of theirs applies to a leaf
    def other(tagname, k, body=''):
        t = TRANSFORMS[(ti + 7 + k) % len(TRANSFORMS)] or 'translate(100,40) rotate(-90)'
        return '<%s transform="%s" x="1" y="1">%s</%s>' % (tagname, t, body, tagname)
    xml += '<title>doc</title>' + other('text', 0, 'label') + leaf(0, base + [], [])
    xml += g(1, ta) + other('text', 1, 'first') + leaf(1, base + [ta], ['g1']) + g(2, tb) + other('image', 2) + \
        leaf(2, base + [ta, tb], ['g1', 'g2']) + '</g></g>'
    xml += g(3, tc) + other('foreignObject', 3) + other('unknownElement', 4) + leaf(3, base + [tc], ['g3']) + '</g>'
    xml += '</svg>'
    return xml, recs


def ref_matrix(chain):
    M = [row[:] for row in refsvg.IDENT]
    for t in chain:
        M = refsvg._mat_mul(M, refsvg.transform_list(t))
    return M


def ref_polylines(rec, with_transforms=True):
    polys = refsvg.shape_polylines(rec['tag'], rec['attrib'])
    if not with_transforms:
        return polys
    M = ref_matrix(rec['chain'])
    return [[refsvg.apply_matrix(M, z) for z in pl] for pl in polys]


def seg_arrays(polys):
    A, B = [], []
    for pl in polys:
        P = np.asarray(pl, dtype=complex)
        if len(P) == 1:
            A.append(P)
            B.append(P)
        else:
            A.append(P[:-1])
            B.append(P[1:])
    return np.concatenate(A), np.concatenate(B)


def dist_points_polylines(Q, polys):
    """min distance of every query point to the union of the polylines (vectorised)"""
    a, b = seg_arrays(polys)
    ab = b - a
    den = ab.real ** 2 + ab.imag ** 2
    den = np.where(den == 0, 1.0, den)
    Q = np.asarray(Q, dtype=complex)[:, None]
    d = Q - a[None, :]
    t = np.clip((d.real * ab.real[None, :] + d.imag * ab.imag[None, :]) / den[None, :], 0.0, 1.0)
    return np.abs(a[None, :] + t * ab[None, :] - Q).min(axis=1)


def path_polylines(p, n=600):
    from svgpathtools import Line
    out = []
    for s in p:
        if isinstance(s, Line):
            out.append([s.start, s.end])
            continue
        ts = np.linspace(0.0, 1.0, n + 1)
        out.append(list(s.poly()(ts)) if hasattr(s, 'poly') else list(s.point(ts)))
    return out


def geometry_matches(p, polys, size, src=None):
    from svgpathtools import Line as _Line
    got = path_polylines(p)
    if src is not None and len(src) == 1 and all(isinstance(s_, _Line) for s_ in p):
        # a straight-sided shape given by ONE list of vertices: as many sides (of non-zero length) as the specification
        # draws, and closed exactly when the specification closes it - whatever the size of the drawing (a spurious
        # or missing closing side of length 1e-9 is below any position tolerance)
        want_sides = sum(1 for a_, b_ in zip(src[0], src[0][1:]) if a_ != b_)
        got_sides = sum(1 for s_ in p if s_.start != s_.end)
        if want_sides != got_sides:
            return 'returned path has %d sides of non-zero length, the element draws %d' % (got_sides, want_sides)
        if (p[0].start == p[-1].end) != (src[0][0] == src[0][-1]) and want_sides > 1:
            return 'returned path is %s, the element as specified is %s' % ('closed' if p[0].start == p[-1].end else 'open', 'closed' if src[0][0] == src[0][-1] else 'open')
    # polylines of 600 chords per curved segment: sagitta <= (L/600)^2/(8 r) stays below this
    # tolerance for the shapes of the alphabet; semantic errors are O(size)
    tol = 5e-4 * size
    if all(isinstance(s_, _Line) for s_ in p):
        # straight shapes have no chord error: their vertices must be where the matrices put them
        tol = 1e-9 * size
    q1 = [z for pl in got for z in (pl[::max(1, len(pl) // 50)] + [pl[-1]])]
    q1 += [(s_.start + s_.end) / 2 for s_ in p if isinstance(s_, _Line)]
    d1 = dist_points_polylines(q1, polys)
    if d1.max() > tol:
        return 'returned path leaves the reference shape at %r' % (q1[int(d1.argmax())],)
    q2 = [z for pl in polys for z in (list(pl[::max(1, len(pl) // 60)]) + [pl[-1]])]
    # (a reference polyline with few vertices is a straight-sided shape: its SIDES must be there too, not only its corners)
    q2 += [(a_ + b_) / 2 for pl in polys if len(pl) < 60 for a_, b_ in zip(pl, pl[1:])]

    d2 = dist_points_polylines(q2, got)
    if d2.max() > tol:
        return 'reference point %r is not on the returned path' % (q2[int(d2.argmax())],)
    return None


def tclass(chain):
    if not chain:
        return 'no_transform'
    names = sorted(set(t.split('(')[0].strip(' ,') for c in chain for t in c.split(')') if t.strip(' ,')))
    return '+'.join(names)


def check_doc(kind, ta, tb, acc, tmpdir, leaves, readers=None):
    xml, recs = build_doc(kind, ta, tb, leaves)
    fn = os.path.join(tmpdir, 'doc.svg')
    with open(fn, 'w') as f:
        f.write(xml)
    byid = {r['id']: r for r in recs}
    case0 = {'kind': kind, 'ta': ta, 'tb': tb}
    tagk = leaves[kind][0]
    has_arc = tagk in ('circle', 'ellipse') or kind.startswith('rect_') or kind in ('path_arc', 'path_relative')

    def judge(reader, p, rec, with_tf, case):
        polys = ref_polylines(rec, with_tf)
        pts = [z for pl in polys for z in pl]
        size = max(max(abs(z) for z in pts), 1.0)
        sig = {'reader': reader, 'element': kind if tagk == 'rect' else tagk,
               'transformed': bool(rec['chain']) if with_tf else 'ignored_by_design'}
        if not isinstance(p, Path) or len(p) == 0:
            acc.violation('not_a_path', sig, case, observed=repr(p)[:200])
            return
        m = geometry_matches(p, polys, size, src=ref_polylines(rec, False))
        if m:
            acc.violation('geometry_differs_from_reference', sig, case, observed=m, expected='reference shape %s chain %r' % (rec['tag'], rec['chain']))
            return
        # the returned object must also be a healthy Path: its own bbox / length agree with its own points (a path
        # that came out of a document carries extra attributes - .transform, .element - that nothing may apply twice)
        own = [z for pl in path_polylines(p, 120) for z in pl]
        ex_ = (min(z.real for z in own), max(z.real for z in own), min(z.imag for z in own), max(z.imag for z in own))
        bb = outcome(lambda: tuple(float(x) for x in p.bbox()))
        plen = sum(abs(b - a) for pl in path_polylines(p, 120) for a, b in zip(pl, pl[1:]))
        ln = outcome(lambda: float(p.length()))
        if bb[0] != 'ok' or max(abs(a - b) for a, b in zip(bb[1], ex_)) > 2e-3 * size or ln[0] != 'ok' or not abs(ln[1] - plen) <= 2e-3 * max(plen, 1e-300):
            acc.violation('returned_path_inconsistent_with_its_own_points', dict(sig, query='bbox' if (bb[0] != 'ok' or max(abs(a - b) for a, b in zip(bb[1], ex_)) > 2e-3 * size) else 'length'),
                          case, observed=[bb, ln], expected=[ex_, plen])
            return
        if reader.startswith('Document') and with_tf:
            M = ref_matrix(rec['chain'])
            T = getattr(p, 'transform', None)
            if T is None or not np.allclose(np.asarray(T, dtype=float), np.asarray(M), rtol=0, atol=1e-9 * (1 + np.abs(np.asarray(M)).max())):
                acc.violation('path_transform_attribute_wrong', sig, case, observed=None if T is None else np.asarray(T).tolist(), expected=M)

    nontriv = bool(ta or tb)
    # ---- Document.paths()
    if readers is None or 'Document.paths' in readers:
        case = dict(case0, reader='Document.paths')
        acc.case(case, cls='Document.paths/%s' % kind, nontrivial=nontriv)
        with warnings.catch_warnings():
            warnings.simplefilter('ignore')
            r = outcome(lambda: Document(fn).paths())
        if r[0] != 'ok':
            acc.violation('reader_raises', {'reader': 'Document.paths', 'element': kind if tagk == 'rect' else tagk, 'exc': r[1]}, case, observed=r)
        else:
            got = {}
            for p in r[1]:
                got.setdefault(p.element.get('id'), []).append(p)
            if sorted(got) != sorted(byid) or any(len(v) != 1 for v in got.values()):
                acc.violation('wrong_set_of_elements', {'reader': 'Document.paths', 'element': tagk}, case, observed=sorted(got), expected=sorted(byid))
            else:
                for i, rec in byid.items():
                    judge('Document.paths', got[i][0], rec, True, case)
    # ---- Document.paths_from_group
    if readers is None or 'Document.paths_from_group' in readers:
        for gid, members in (('g1', ['leaf1', 'leaf2']), ('g2', ['leaf2']), ('g3', ['leaf3'])):
            case = dict(case0, reader='Document.paths_from_group', group=gid)
            acc.case(case, cls='Document.paths_from_group/%s' % kind, nontrivial=nontriv)

            def run():
                d = Document(fn)
                ge = [e for e in d.tree.getroot().iter('{%s}g' % NS) if e.get('id') == gid][0]
                return d.paths_from_group(ge)
            with warnings.catch_warnings():
                warnings.simplefilter('ignore')
                r = outcome(run)
            if r[0] != 'ok':
                acc.violation('reader_raises', {'reader': 'Document.paths_from_group', 'element': kind if tagk == 'rect' else tagk, 'exc': r[1]}, case, observed=r)
                continue
            ids = sorted(p.element.get('id') for p in r[1])
            if ids != sorted(members):
                acc.violation('wrong_set_of_elements', {'reader': 'Document.paths_from_group', 'group': gid}, case, observed=ids, expected=members)
                continue
            for p in r[1]:
                judge('Document.paths_from_group', p, byid[p.element.get('id')], True, case)
    # ---- svg2paths
    if readers is None or 'svg2paths' in readers:
        case = dict(case0, reader='svg2paths')
        acc.case(case, cls='svg2paths/%s' % kind, nontrivial=nontriv)
        with warnings.catch_warnings():
            warnings.simplefilter('ignore')
            r = outcome(lambda: svg2paths(fn))
        if r[0] != 'ok':
            acc.violation('reader_raises', {'reader': 'svg2paths', 'element': kind if tagk == 'rect' else tagk, 'exc': r[1]}, case, observed=r)
        else:
            paths, atts = r[1]
            ids = [a.get('id') for a in atts]
            if sorted(ids) != sorted(byid):
                acc.violation('wrong_set_of_elements', {'reader': 'svg2paths', 'element': tagk}, case, observed=ids, expected=sorted(byid))
            else:
                for p, a in zip(paths, atts):
                    judge('svg2paths', p, byid[a['id']], False, case)
    # ---- SaxDocument
    if readers is None or 'SaxDocument' in readers:
        case = dict(case0, reader='SaxDocument')
        acc.case(case, cls='SaxDocument/%s' % kind, nontrivial=nontriv)

        def run_sax():
            sd = SaxDocument(fn)
            return [v.get('id') for v in sd.tree], sd.flatten_all_paths()
        with warnings.catch_warnings():
            warnings.simplefilter('ignore')
            r = outcome(run_sax)
        if r[0] != 'ok':
            acc.violation('reader_raises', {'reader': 'SaxDocument', 'element': kind if tagk == 'rect' else tagk, 'exc': r[1]}, case, observed=r)
        else:
            ids, paths = r[1]
            if sorted(ids) != sorted(byid) or len(paths) != len(ids):
                acc.violation('wrong_set_of_elements', {'reader': 'SaxDocument', 'element': tagk}, case, observed=ids, expected=sorted(byid))
            else:
                for i, p in zip(ids, paths):
                    judge('SaxDocument', p, byid[i], True, case)
    # ---- SaxDocument written out again (SaxDocument.save keeps d, the composed matrix, fill and stroke) and re-read
    if readers is None or 'SaxDocument.save+SaxDocument' in readers:
        case = dict(case0, reader='SaxDocument.save+SaxDocument')
        acc.case(case, cls='SaxDocument.save/%s' % kind, nontrivial=nontriv)

        def run_sax_again():
            sd = SaxDocument(fn)
            fn2 = os.path.join(tmpdir, 'doc_saved_by_sax.svg')
            sd.save(fn2)
            sd2 = SaxDocument(fn2)
            return [v.get('stroke') for v in sd2.tree], sd2.flatten_all_paths()
        with warnings.catch_warnings():
            warnings.simplefilter('ignore')
            r = outcome(run_sax_again)
        if r[0] != 'ok':
            acc.violation('reader_raises', {'reader': 'SaxDocument.save+SaxDocument', 'element': kind if tagk == 'rect' else tagk, 'exc': r[1]}, case, observed=r)
        else:
            strokes, paths = r[1]
            ids = ['leaf' + str(st)[-1] if st else None for st in strokes]
            if sorted(map(str, ids)) != sorted(byid) or len(paths) != len(ids):
                acc.violation('wrong_set_of_elements', {'reader': 'SaxDocument.save+SaxDocument', 'element': tagk}, case, observed=ids, expected=sorted(byid))
            else:
                for i, p in zip(ids, paths):
                    judge('SaxDocument.save+SaxDocument', p, byid[i], True, case)


# ---------------------------------------------------------------------------------------------------------
# Options of the readers: a document with EVERY element kind several times as siblings (two of each kind at the
# top level and in g1, one in g2 and g3, every one with an own transform that differs from its neighbours'),
# read with non-default group_filter / path_filter / path_conversions / recursive / group-by-name, and with every
# combination of svg2paths' convert_* flags.  The reference selects the expected elements itself.
MIXED_KINDS = ['path_lines', 'path_cubic', 'line', 'polyline_open', 'polygon_open', 'rect_plain', 'rect_rx_ry', 'circle', 'ellipse']
FLAG_OF_TAG = {'circle': 'convert_circles_to_paths', 'ellipse': 'convert_ellipses_to_paths', 'line': 'convert_lines_to_paths',
               'polyline': 'convert_polylines_to_paths', 'polygon': 'convert_polygons_to_paths', 'rect': 'convert_rectangles_to_paths'}


def build_mixed_doc(variant):
    recs = []
    own_pool = [t for t in TRANSFORMS[:14] if t]
    counter = [variant]

    def leaf(kind, chain, groups):
        tag, at = LEAVES[kind]
        k = len(recs)
        own = own_pool[(counter[0] + 5 * k) % len(own_pool)] if k % 4 != 3 else None
        a = dict(at)
        a['id'] = 'm%d' % k
        if own:
            a['transform'] = own
        recs.append({'id': a['id'], 'tag': tag, 'kind': kind, 'attrib': dict(at), 'chain': [t for t in chain + [own] if t], 'groups': groups})
        return '<%s%s/>' % (tag, attrs(a))
    ta, tb, tc = own_pool[variant % len(own_pool)], own_pool[(variant + 4) % len(own_pool)], own_pool[(variant + 9) % len(own_pool)]
    xml = '<?xml version="1.0"?>\n<svg xmlns="%s" width="100" height="100" viewBox="0 0 100 100">' % NS
    for rep in range(2):
        xml += ''.join(leaf(k, [], []) for k in MIXED_KINDS)
    xml += '<g id="g1" transform="%s">' % ta
    for rep in range(2):
        xml += ''.join(leaf(k, [ta], ['g1']) for k in MIXED_KINDS)
    xml += '<g id="g2" transform="%s">' % tb + ''.join(leaf(k, [ta, tb], ['g1', 'g2']) for k in MIXED_KINDS) + '</g></g>'
    xml += '<g id="g3" transform="%s">' % tc + ''.join(leaf(k, [tc], ['g3']) for k in MIXED_KINDS) + '</g>'
    xml += '</svg>'
    return xml, recs


def path_filters(recs):
    """name -> set of rejected ids"""
    out = {'accept_all_explicitly': set()}
    out['reject_every_other'] = {r['id'] for i, r in enumerate(recs) if i % 2 == 0}
    out['reject_first_of_each_kind_in_each_group'] = set()
    seen = set()
    for r in recs:
        key = (r['kind'], tuple(r['groups']))
        if key not in seen:
            seen.add(key)
            out['reject_first_of_each_kind_in_each_group'].add(r['id'])
    out['reject_all_but_last_of_each_kind_in_each_group'] = set()
    last = {}
    for r in recs:
        last[(r['kind'], tuple(r['groups']))] = r['id']
    out['reject_all_but_last_of_each_kind_in_each_group'] = {r['id'] for r in recs} - set(last.values())
    out['reject_untransformed'] = {r['id'] for r in recs if not r['chain']}
    out['reject_everything'] = {r['id'] for r in recs}
    return out


def check_options(variant, acc, tmpdir, only=None):
    from svgpathtools.document import CONVERSIONS, CONVERT_ONLY_PATHS
    from svgpathtools import svg2paths2
    from svgpathtools.svg_to_paths import svgstr2paths
    xml, recs = build_mixed_doc(variant)
    fn = os.path.join(tmpdir, 'mixed.svg')
    with open(fn, 'w') as f:
        f.write(xml)
    byid = {r['id']: r for r in recs}

    def judge_set(reader, sig, case, paths_with_ids, expected_ids, with_tf):
        ids = sorted(i for i, _ in paths_with_ids)
        if ids != sorted(expected_ids):
            acc.violation('wrong_set_of_elements', sig, case, observed={'unexpected': sorted(set(ids) - set(expected_ids)), 'missing': sorted(set(expected_ids) - set(ids)),
                                                                        'duplicates': sorted(i for i in set(ids) if ids.count(i) > 1)})
            return
        for i, p in paths_with_ids:
            rec = byid[i]
            polys = ref_polylines(rec, with_tf)
            size = max(max(abs(z) for pl in polys for z in pl), 1.0)
            if not isinstance(p, Path) or len(p) == 0:
                acc.violation('not_a_path', dict(sig, element=rec['tag']), dict(case, id=i), observed=repr(p)[:200])
                return
            m = geometry_matches(p, polys, size, src=ref_polylines(rec, False))
            if m:
                acc.violation('geometry_differs_from_reference', dict(sig, element=rec['tag']), dict(case, id=i), observed=m,
                              expected='reference shape %s chain %r' % (rec['tag'], rec['chain']))
                return

    convs = {'default_given_explicitly': dict(CONVERSIONS), 'only_paths': CONVERT_ONLY_PATHS}
    for k in CONVERSIONS:
        convs['without_' + k] = {kk: v for kk, v in CONVERSIONS.items() if kk != k}
    convs['only_polygon_and_circle'] = {kk: v for kk, v in CONVERSIONS.items() if kk in ('polygon', 'circle')}
    gfilters = {'accept_all_explicitly': set(), 'reject_g1': {'g1'}, 'reject_g2': {'g2'}, 'reject_g3': {'g3'}, 'reject_g1_g3': {'g1', 'g3'}}
    pfilters = path_filters(recs)
    # ---- Document.paths(group_filter, path_filter, path_conversions)
    for gname, grej in gfilters.items():
        for pname, prej in pfilters.items():
            for cname, conv in convs.items():
                if cname not in ('default_given_explicitly', 'only_paths', 'without_polyline') and (gname != 'accept_all_explicitly' and pname != 'accept_all_explicitly'):
                    continue
                for how in ('keyword', 'positional'):
                    case = {'what': 'options', 'variant': variant, 'reader': 'Document.paths', 'group_filter': gname, 'path_filter': pname, 'path_conversions': cname, 'how': how}
                    if only and only != {k: v for k, v in case.items()}:
                        continue
                    acc.case(case, cls='options/Document.paths/%s' % how)
                    gf = lambda e, grej=grej: e.get('id') not in grej
                    pf = lambda e, prej=prej: e.get('id') not in prej
                    exp = [r['id'] for r in recs if r['id'] not in prej and r['tag'] in conv and not (set(r['groups']) & grej)]
                    # a rejected group hides its descendants
                    with warnings.catch_warnings():
                        warnings.simplefilter('ignore')
                        if how == 'keyword':
                            r = outcome(lambda: Document(fn).paths(group_filter=gf, path_filter=pf, path_conversions=conv))
                        else:
                            r = outcome(lambda: Document(fn).paths(gf, pf, conv))
                    sig = {'reader': 'Document.paths', 'options': sorted(n for n, v in (('group_filter', gname), ('path_filter', pname), ('path_conversions', cname))
                                                                         if not v.endswith('explicitly'))}
                    if r[0] != 'ok':
                        acc.violation('reader_raises', dict(sig, exc=r[1]), case, observed=r)
                        continue
                    judge_set('Document.paths', sig, case, [(p.element.get('id'), p) for p in r[1]], exp, True)
    # ---- Document.paths_from_group(group, recursive, group_filter, path_filter, path_conversions)
    for gsel, gpath in (('g1', ['g1']), ('g2', ['g1', 'g2']), ('g3', ['g3']), ('root', None)):
        for by in ('element', 'names'):
            if gpath is None and by == 'names':
                continue
            for recursive in (True, False):
                for pname in ('accept_all_explicitly', 'reject_every_other', 'reject_first_of_each_kind_in_each_group'):
                    for gname in ('accept_all_explicitly', 'reject_g2'):
                        for cname in ('default_given_explicitly', 'without_polyline'):
                            case = {'what': 'options', 'variant': variant, 'reader': 'Document.paths_from_group', 'group': gsel, 'group_given_by': by, 'recursive': recursive,
                                    'group_filter': gname, 'path_filter': pname, 'path_conversions': cname}
                            if only and only != case:
                                continue
                            acc.case(case, cls='options/Document.paths_from_group/%s' % ('recursive' if recursive else 'not_recursive'))
                            prej, grej, conv = pfilters[pname], gfilters[gname], convs[cname]
                            gf = lambda e, grej=grej: e.get('id') not in grej
                            pf = lambda e, prej=prej: e.get('id') not in prej

                            def inside(rec):
                                if gpath is None:
                                    return True if recursive else not rec['groups']
                                if recursive:
                                    return rec['groups'][:len(gpath)] == gpath
                                return rec['groups'] == gpath
                            exp = [r_['id'] for r_ in recs if inside(r_) and r_['id'] not in prej and r_['tag'] in conv and not (set(r_['groups']) & grej)]

                            def run():
                                d = Document(fn)
                                if by == 'names':
                                    grp = list(gpath)
                                elif gpath is None:
                                    grp = d.tree.getroot()
                                else:
                                    grp = [e for e in d.tree.getroot().iter('{%s}g' % NS) if e.get('id') == gsel][0]
                                kw = {}
                                if pname != 'accept_all_explicitly':
                                    kw['path_filter'] = pf
                                if gname != 'accept_all_explicitly':
                                    kw['group_filter'] = gf
                                if cname != 'default_given_explicitly':
                                    kw['path_conversions'] = conv
                                return d.paths_from_group(grp, recursive, **kw) if not recursive or kw else d.paths_from_group(grp, recursive=recursive)
                            with warnings.catch_warnings():
                                warnings.simplefilter('ignore')
                                r = outcome(run)
                            sig = {'reader': 'Document.paths_from_group', 'group': gsel, 'recursive': recursive,
                                   'options': sorted(n for n, v in (('group_filter', gname), ('path_filter', pname), ('path_conversions', cname)) if not v.endswith('explicitly'))}
                            if r[0] != 'ok':
                                acc.violation('reader_raises', dict(sig, exc=r[1]), case, observed=r)
                                continue
                            judge_set('Document.paths_from_group', sig, case, [(p.element.get('id'), p) for p in r[1]], exp, True)
    # ---- svg2paths / svg2paths2 / svgstr2paths with every combination of the convert_* flags
    flags = sorted(set(FLAG_OF_TAG.values()))
    for bits in itertools.product((True, False), repeat=len(flags)):
        kw = dict(zip(flags, bits))
        for fname in ('svg2paths', 'svg2paths2', 'svgstr2paths', 'svg2paths_positional'):
            for rsa in (False, True):
                if fname != 'svg2paths' and (rsa or sum(1 for b in bits if not b) > 2):
                    continue
                case = {'what': 'options', 'variant': variant, 'reader': fname, 'flags_off': sorted(k for k, v in kw.items() if not v), 'return_svg_attributes': rsa}
                if only and only != case:
                    continue
                acc.case(case, cls='options/%s/%d_off' % (fname, len(case['flags_off'])))
                exp = [r_['id'] for r_ in recs if kw.get(FLAG_OF_TAG.get(r_['tag']), True)]

                def run():
                    if fname == 'svg2paths':
                        return svg2paths(fn, return_svg_attributes=rsa, **{k: v for k, v in kw.items() if not v})
                    if fname == 'svg2paths2':
                        return svg2paths2(fn, **{k: v for k, v in kw.items() if not v})
                    if fname == 'svgstr2paths':
                        return svgstr2paths(xml, **kw)
                    return svg2paths(fn, False, kw['convert_circles_to_paths'], kw['convert_ellipses_to_paths'], kw['convert_lines_to_paths'],
                                     kw['convert_polylines_to_paths'], kw['convert_polygons_to_paths'], kw['convert_rectangles_to_paths'])
                with warnings.catch_warnings():
                    warnings.simplefilter('ignore')
                    r = outcome(run)
                sig = {'reader': fname, 'flags_off': case['flags_off'], 'return_svg_attributes': rsa}
                if r[0] != 'ok':
                    acc.violation('reader_raises', dict(sig, exc=r[1]), case, observed=r)
                    continue
                want_three = rsa or fname == 'svg2paths2'
                if len(r[1]) != (3 if want_three else 2):
                    acc.violation('wrong_shape_of_result', sig, case, observed=len(r[1]), expected=3 if want_three else 2)
                    continue
                if want_three and (not isinstance(r[1][2], dict) or r[1][2].get('viewBox') != '0 0 100 100' or r[1][2].get('width') != '100'):
                    acc.violation('svg_attributes_wrong', sig, case, observed=repr(r[1][2])[:200], expected={'viewBox': '0 0 100 100', 'width': '100'})
                    continue
                paths, atts = r[1][0], r[1][1]
                if len(paths) != len(atts):
                    acc.violation('paths_and_attributes_differ_in_number', sig, case, observed=[len(paths), len(atts)])
                    continue
                judge_set(fname, sig, case, [(a.get('id'), p) for p, a in zip(paths, atts)], exp, False)


def tier_leaves(tier):
    d = dict(LEAVES)
    d.update(THOROUGH_LEAVES)
    return d


def tier_transforms(tier):
    return TRANSFORMS if tier == 'thorough' else TRANSFORMS[:10]


def shards(tier, seed):
    return [{'kind': k, 'ta': ta} for k in tier_leaves(tier) for ta in tier_transforms(tier)] + \
        [{'what': 'options', 'variant': v} for v in range(4 if tier == 'quick' else 13)]


def run_shard(desc, tier, seed):
    acc = core.Acc()
    tmp = tempfile.mkdtemp(prefix='verif_c17_')
    try:
        if desc.get('what') == 'options':
            check_options(desc['variant'], acc, tmp)
            return acc
        for tb in tier_transforms(tier):
            check_doc(desc['kind'], desc['ta'], tb, acc, tmp, tier_leaves(tier))
    finally:
        shutil.rmtree(tmp, ignore_errors=True)
    return acc


def expected_classes(tier):
    return ['%s/%s' % (r, k) for r in ('Document.paths', 'Document.paths_from_group', 'svg2paths', 'SaxDocument') for k in LEAVES]


def space(tier, seed):
    return {'options_family': {'document': 'every kind of %r twice at top level and in g1, once in g2 (inside g1) and g3, own transforms differing between neighbours' % MIXED_KINDS,
                               'Document.paths': 'group_filter x path_filter x path_conversions (keyword and positional)',
                               'Document.paths_from_group': 'group {g1,g2,g3,root} x given by {element, list of names} x recursive {True,False} x filters x conversions',
                               'svg2paths': 'all 64 combinations of the six convert_* flags x return_svg_attributes; svg2paths2, svgstr2paths, positional flags with <= 2 flags off'},
            'leaf_kinds': list(tier_leaves(tier)), 'transform_alphabet': tier_transforms(tier),
            'tree': 'svg > [leaf0, g1(ta) > [leaf1, g2(tb) > [leaf2]], g3(tc) > [leaf3]]; (ta, tb) all pairs; tc and own transforms rotate through the alphabet',
            'readers': ['Document.paths', 'Document.paths_from_group (g1, g2, g3)', 'svg2paths', 'SaxDocument.flatten_all_paths']}


def replay(case):
    acc = core.ReplayAcc()
    tmp = tempfile.mkdtemp(prefix='verif_c17_')
    try:
        leaves = dict(LEAVES)
        leaves.update(THOROUGH_LEAVES)
        if case.get('what') == 'options':
            check_options(case['variant'], acc, tmp, only={k: v for k, v in case.items() if k != 'id'})
            return acc.vlist
        check_doc(case['kind'], case['ta'], case['tb'], acc, tmp, leaves, readers=[case['reader']])
        if 'group' in case:
            acc.vlist = [v for v in acc.vlist if v['case'].get('group') == case['group']]
    finally:
        shutil.rmtree(tmp, ignore_errors=True)
    return acc.vlist
