"""C20  smoothed_path removes kinks without moving the path.

Product mode: turtle-generated continuous line/cubic paths - corner angle x
segment length x type pattern x open/closed x (maxjointsize, tightness) grids.
Oracle: continuity (== at joints), an independent kink test on finite-difference
tangents, the library's own kinks() == [], end points / closure, distance of a
dense sample of the result to the dense polyline of the input, and
preservation of joints that were already smooth.
"""
import cmath
import itertools
import math
import warnings

import numpy as np

from mc import core
from mc import alphabets as AB
from mc.enc import outcome, path2j

from svgpathtools import Path, Line, CubicBezier, smoothed_path, kinks

ID = 'C20'
LEVEL = 'exploration'
RULE = ('turtle paths: type pattern x corner angles x lengths x open/closed x (maxjointsize, tightness); one case per '
        '(path, parameters); non-trivial = the input has at least one kink; distinct = distinct tuple')
ASSUMPTIONS = ['independent kink test: end tangents from the control polygon, angle < 1e-6 rad',
               'distance test on dense samples (40 points per output segment against 400-chord polylines of the input)',
               '180-degree reversals are excluded (property)']

ANGLES2 = [-170, -135, -90, -45, -15, 0, 15, 45, 90, 135, 170]
ANGLES3 = [-135, -45, 0, 45, 90, 170]
LENGTHS = [0.3, 3.0, 60.0]
PARAMS = [(0.5, 0.5), (0.5, 1.0), (0.5, 1.99), (3.0, 0.5), (3.0, 1.0), (3.0, 1.99)]
BETA = 0.4


def make_seg(kind, p, heading, L):
    """returns (segment, heading at its end)"""
    if kind == 'D':
        # derivative vanishes at t = 1 (control2 == end); the curve arrives along end - control1
        c1 = p + (L / 2.0) * heading
        e = p + L * heading * cmath.exp(-1j * BETA)
        h_out = (e - c1) / abs(e - c1)
        return CubicBezier(p, c1, e, e), h_out
    if kind == 'E':
        # derivative vanishes at t = 0 (control1 == start); leaves along control2 - start
        h_out = heading * cmath.exp(-1j * BETA)
        c2 = p + (L / 2.0) * heading
        e = c2 + (L / 2.0) * h_out
        return CubicBezier(p, p, c2, e), h_out
    if kind == 'O':
        # a loop: the cubic returns to its start point (chord length 0, arc length > 0)
        c1 = p + L * heading * cmath.exp(0.5j)
        c2 = p + L * heading * cmath.exp(1.8j)
        h_out = (p - c2) / abs(p - c2)
        return CubicBezier(p, c1, c2, p), h_out
    if kind == 'L':
        e = p + L * heading
        return Line(p, e), heading
    if kind == 'F':
        # 'ease-out': control1 == control2 == end - first AND second derivative vanish at the end, the curve
        # arrives along end - start
        e = p + L * heading
        return CubicBezier(p, e, e, e), heading
    if kind == 'G':
        # 'ease-in': start == control1 == control2
        e = p + L * heading
        return CubicBezier(p, p, p, e), heading
    if kind == 'S':
        # a straight cubic (all control points on the chord, evenly spaced)
        e = p + L * heading
        return CubicBezier(p, p + (L / 3.0) * heading, p + (2 * L / 3.0) * heading, e), heading
    if kind == 'V':
        # collinear, second handle OVERSHOOTS the end point: the curve runs past its end and comes back,
        # arriving with the direction of travel reversed
        e = p + L * heading
        return CubicBezier(p, p + (L / 2.0) * heading, p + (1.5 * L) * heading, e), -heading
    if kind == 'W':
        # collinear, first handle behind the start point: the curve first backs up, then runs forward
        e = p + L * heading
        return CubicBezier(p, p - (L / 2.0) * heading, p + (L / 2.0) * heading, e), heading
    h_out = heading * cmath.exp(-2j * BETA)
    c1 = p + (L / 3.0) * heading
    e = p + L * heading * cmath.exp(-1j * BETA)
    c2 = e - (L / 3.0) * h_out
    return CubicBezier(p, c1, c2, e), h_out


def turtle(kinds, angles, lengths, start=1.5 - 0.5j, heading0=cmath.exp(0.3j)):
    segs = []
    p, h = start, heading0
    for i, k in enumerate(kinds):
        if i > 0:
            h = h * cmath.exp(1j * math.radians(angles[i - 1]))
        s, h = make_seg(k, p, h, lengths[i])
        segs.append(s)
        p = s.end
    return segs


def closed_shape_smooth_closing(kinds, size):
    """like closed_shape, but the path starts in the middle of its first (straight) side, so the
    closing joint is already smooth"""
    segs = closed_shape('L' + kinds[1:], size)
    first = segs[0]
    m = first.point(0.4)
    return [Line(m, first.end)] + segs[1:] + [Line(first.start, m)]


def closed_shape(kinds, size):
    n = len(kinds)
    verts = [size * cmath.exp(2j * math.pi * (i + 0.13 * (i % 2)) / n) * (1 + 0.2 * (i % 3)) + (2 + 1j) for i in range(n)]
    segs = []
    for i, k in enumerate(kinds):
        a, b = verts[i], verts[(i + 1) % n]
        if k == 'L':
            segs.append(Line(a, b))
        else:
            d = b - a
            segs.append(CubicBezier(a, a + d / 3 * cmath.exp(0.5j), b - d / 3 * cmath.exp(-0.5j), b))
    return segs


def fd_tangent(seg, t):
    """end tangent of a Bezier segment from its control polygon (independent of the library's
    derivative code): direction from the end point to the nearest control point that differs from it"""
    pts = [complex(q) for q in seg.bpoints()]
    if t == 0:
        for q in pts[1:]:
            if q != pts[0]:
                d = q - pts[0]
                return d / abs(d)
    else:
        for q in reversed(pts[:-1]):
            if q != pts[-1]:
                d = pts[-1] - q
                return d / abs(d)
    raise ValueError('degenerate segment')


def polyline_of(path, n):
    pts = []
    for s in path:
        ts = np.linspace(0, 1, n + 1)
        pts.append(np.array([s.point(t) for t in ts]) if not isinstance(s, Line) else np.array([s.start, s.end]))
    return pts


def dist_to_polylines(Q, polys):
    a = np.concatenate([p[:-1] for p in polys])
    b = np.concatenate([p[1:] for p in polys])
    ab = b - a
    den = ab.real ** 2 + ab.imag ** 2
    den = np.where(den == 0, 1.0, den)
    Q = np.asarray(Q, dtype=complex)[:, None]
    d = Q - a[None, :]
    t = np.clip((d.real * ab.real[None, :] + d.imag * ab.imag[None, :]) / den[None, :], 0.0, 1.0)
    return np.abs(a[None, :] + t * ab[None, :] - Q).min(axis=1)


def check(segs, closed, mjs, tight, case, acc):
    p = AB.derive_path(Path(*segs))
    n = len(segs)
    if not closed and n > 1 and segs[-1].end == segs[0].start:
        closed = True       # a turtle walk that returns exactly to its start IS a closed path
    joint_idx = list(range(1, n)) + ([0] if closed else [])
    in_kinks = []
    for j in joint_idx:
        u, v = fd_tangent(segs[j - 1], 1), fd_tangent(segs[j], 0)
        ang = abs(cmath.phase(v / u))
        if ang > math.radians(179.95):
            acc.filt('180_degree_reversal')
            return
        if ang > 1e-6:
            in_kinks.append(j)
    kinds = ''.join('L' if isinstance(s, Line) else ('C' if s.control1 != s.start and s.control2 != s.end else 'D') for s in segs)
    acc.case(case, cls='%s/%s/%s' % ('closed' if closed else 'open', 'n%d' % n, 'kinks%d' % min(len(in_kinks), 3)),
             nontrivial=bool(in_kinks))
    with warnings.catch_warnings():
        warnings.simplefilter('ignore')
        r = outcome(lambda: smoothed_path(p, maxjointsize=mjs, tightness=tight))
    sig = {'closed': closed, 'pattern': kinds if n <= 3 else 'n%d' % n}
    if r[0] != 'ok':
        acc.violation('smoothed_path_raises', dict(sig, exc=r[1]), case, observed=r)
        return
    out = r[1]
    if not isinstance(out, Path) or len(out) == 0:
        acc.violation('not_a_path', sig, case, observed=repr(out)[:200])
        return
    m = len(out)
    # continuity
    for i in range(m - 1):
        if not out[i].end == out[i + 1].start:
            acc.violation('result_not_continuous', sig, case, observed=[out[i].end, out[i + 1].start], detail='joint %d' % (i + 1))
            return
    if closed:
        if not out[-1].end == out[0].start:
            acc.violation('closed_input_open_output', sig, case, observed=[out[0].start, out[-1].end])
            return
    else:
        if not (out[0].start == p[0].start and out[-1].end == p[-1].end):
            acc.violation('endpoints_moved', sig, case, observed=[out[0].start, out[-1].end], expected=[p[0].start, p[-1].end])
            return
    # no piece may be a single point (an elbow of size zero leaves the corner as it was)
    for j in range(m):
        b = [complex(q) for q in out[j].bpoints()]
        if all(q == b[0] for q in b):
            acc.violation('degenerate_piece', sig, case, observed=repr(out[j])[:200], detail='output segment %d of %d' % (j, m))
            return
    # no kinks: independent test + the library's own
    for j in list(range(1, m)) + ([0] if closed else []):
        if isinstance(out[j - 1], Line) and out[j - 1].start == out[j - 1].end:
            acc.violation('zero_length_piece', sig, case)
            return
        u, v = fd_tangent(out[j - 1], 1), fd_tangent(out[j], 0)
        ang = abs(cmath.phase(v / u))
        if ang > 1e-6:
            acc.violation('kink_remains', dict(sig, at_closing_joint=(j == 0)), case, observed=math.degrees(ang),
                          detail='joint before output segment %d of %d' % (j, m))
            return
    with warnings.catch_warnings():
        warnings.simplefilter('ignore')
        rk = outcome(lambda: kinks(out))
    if rk != ('ok', []):
        acc.violation('library_kinks_nonempty', sig, case, observed=rk)
        return
    # stays within maxjointsize of the original
    polys = polyline_of(p, 400)
    Q = [s.point(t) for s in out for t in np.linspace(0, 1, 41)]
    d = dist_to_polylines(Q, polys)
    if d.max() > mjs + 1e-6:
        acc.violation('moved_further_than_maxjointsize', sig, case, observed=float(d.max()), expected=mjs)
        return
    # already-smooth joints keep position and tangent
    for j in joint_idx:
        if j in in_kinks:
            continue
        q = segs[j].start
        dq = dist_to_polylines([q], polyline_of(out, 200))
        if dq.max() > 1e-9 * (1 + abs(q)):
            acc.violation('smooth_joint_moved', sig, case, observed=float(dq.max()))
            return


def tier_params(tier, seed):
    return {'n3': tier != 'quick' or True, 'n4': tier == 'thorough'}


def gen_cases(tier):
    for kinds in itertools.product('LC', repeat=2):
        for a in ANGLES2:
            for ls in itertools.product(LENGTHS, repeat=2):
                for pr in PARAMS:
                    yield ('open', ''.join(kinds), [a], list(ls), pr)
    for kinds in itertools.product('LC', repeat=3):
        for a in itertools.product(ANGLES3 if tier == 'quick' else ANGLES2, repeat=2):
            for ls in ([3.0, 3.0, 3.0], [0.3, 3.0, 60.0], [60.0, 0.3, 3.0], [3.0, 60.0, 0.3]):
                for pr in PARAMS:
                    yield ('open', ''.join(kinds), list(a), ls, pr)
    if True:
        for kinds in itertools.product('LC', repeat=4):
            for a in itertools.product([-90, 0, 45, 170] if tier == 'quick' else [-150, -90, -30, 0, 45, 100, 170], repeat=3):
                for ls in ([3.0, 3.0, 3.0, 3.0], [0.3, 60.0, 3.0, 0.3]):
                    for pr in (PARAMS[2], PARAMS[3]):
                        yield ('open', ''.join(kinds), list(a), ls, pr)
    for n in (3, 4):
        for kinds in itertools.product('LC', repeat=n):
            for size in (0.5, 5.0, 80.0):
                for pr in PARAMS:
                    yield ('closed', ''.join(kinds), [], [size], pr)
    # the same drawings at other scales (all coordinates and maxjointsize multiplied)
    for sc in REGIME_SCALES:
        for kinds in itertools.product('LC', repeat=2):
            for a in ANGLES2:
                for ls in ([3.0, 3.0], [0.3, 60.0]):
                    yield ('open', ''.join(kinds), [a], list(ls), PARAMS[0], sc)
        for kinds in itertools.product('LC', repeat=3):
            for size in (5.0,):
                yield ('closed', ''.join(kinds), [], [size], PARAMS[0], sc)
    for n in (3, 4):
        for kinds in itertools.product('LC', repeat=n):
            if kinds[0] != 'L':
                continue
            for size in (0.5, 5.0, 80.0):
                for pr in (PARAMS[2], PARAMS[3]):
                    yield ('closed_smooth_closing', ''.join(kinds), [], [size], pr)
    # cubics whose end derivative vanishes (coincident end control points), followed / preceded by
    # smoothly continuing or turning segments
    for kinds in (('D', 'L'), ('D', 'C'), ('L', 'E'), ('C', 'E'), ('D', 'E'), ('L', 'D', 'L'), ('C', 'E', 'L')):
        for a in itertools.product([0, 45, -90, 135], repeat=len(kinds) - 1):
            for L_ in (3.0, 60.0):
                for pr in (PARAMS[2], PARAMS[3]):
                    yield ('open', ''.join(kinds), list(a), [L_] * len(kinds), pr)
    # collinear cubics: straight ones, and ones whose handle overshoots an end point (the direction of
    # travel at that end is then opposite to the chord)
    for kinds in (('F', 'L'), ('L', 'G'), ('F', 'G'), ('F', 'C'), ('C', 'G'), ('L', 'F', 'L'), ('S', 'L'), ('L', 'S'), ('V', 'L'), ('V', 'C'), ('L', 'W'), ('C', 'W'), ('L', 'S', 'L'), ('L', 'V', 'L'), ('L', 'W', 'L'), ('V', 'W')):
        for a in itertools.product([45, -90, 135], repeat=len(kinds) - 1):
            for L_ in (3.0, 60.0):
                for pr in (PARAMS[2], PARAMS[3]):
                    yield ('open', ''.join(kinds), list(a), [L_] * len(kinds), pr)
    # loops (start == end) next to lines and cubics
    for kinds in (('L', 'O', 'L'), ('C', 'O', 'L'), ('L', 'O'), ('O', 'C'), ('L', 'O', 'C')):
        for a in itertools.product([45, -90, 135], repeat=len(kinds) - 1):
            for L_ in (3.0, 60.0):
                for pr in (PARAMS[2], PARAMS[3]):
                    yield ('open', ''.join(kinds), list(a), [L_] * len(kinds), pr)
    # corners that are almost straight and corners that almost reverse (but do not)
    for kinds in itertools.product('LC', repeat=2):
        for a in (0.01, -0.1, 0.2, 1.0, 179.0, -179.8, 179.9):
            for L_ in (3.0, 60.0):
                for pr in (PARAMS[2], PARAMS[3]):
                    yield ('open', ''.join(kinds), [a], [L_, L_], pr)
    for kind in 'LCODEFGSVW':
        for L_ in (3.0, 0.2):
            yield ('single', kind, [], [L_], PARAMS[3])


REGIME_SCALES = [1e-9, 1e-6, 1e6]


def rescaled(segs, sc):
    return [type(s_)(*[q * sc for q in s_.bpoints()]) for s_ in segs]


def run_case(c, acc):
    mode, kinds, angles, ls, pr = c[:5]
    sc = c[5] if len(c) > 5 else None
    case = {'mode': mode, 'kinds': kinds, 'angles': angles, 'lengths': ls, 'maxjointsize': pr[0], 'tightness': pr[1]}
    if sc is not None:
        case['maxjointsize'] = pr[0] * sc
        # the same drawing, every coordinate multiplied by sc (maxjointsize with it)
        case['scale'] = sc
        acc.seen('drawing_scale:%g' % sc)
        segs = turtle(kinds, angles, ls) if mode == 'open' else closed_shape(kinds, ls[0])
        check(rescaled(segs, sc), mode != 'open', pr[0] * sc, pr[1], case, acc)
        return
    if mode == 'single':
        s, _ = make_seg(kinds, 1 + 1j, 1 + 0j, ls[0])
        p = Path(s)
        r = outcome(lambda: smoothed_path(p))
        acc.case(case, cls='single', nontrivial=False)
        if r[0] != 'ok' or not (r[1] is p or r[1] == p):
            acc.violation('single_segment_changed', {}, case, observed=repr(r)[:200])
        return
    if mode == 'open':
        segs = turtle(kinds, angles, ls)
        check(segs, False, pr[0], pr[1], case, acc)
    elif mode == 'closed_smooth_closing':
        segs = closed_shape_smooth_closing(kinds, ls[0])
        check(segs, True, pr[0], pr[1], case, acc)
    else:
        segs = closed_shape(kinds, ls[0])
        check(segs, True, pr[0], pr[1], case, acc)


NSH = 64


def shards(tier, seed):
    out = [{'k': k} for k in range(NSH)]
    # every eighth (quick) / every (thorough) shard again on equal paths with another history
    out += AB.provenance_shards(out, tier, lambda d: tier == 'thorough' or d['k'] % 8 == 0, key='pprov')
    return out


def run_shard(desc, tier, seed):
    acc = core.Acc()
    for i, c in enumerate(gen_cases(tier)):
        if i % NSH == desc['k']:
            run_case(c, acc)
    return acc


def expected_classes(tier):
    return ['open/n2/kinks1', 'open/n2/kinks0', 'open/n3/kinks2', 'open/n3/kinks1', 'closed/n3/kinks3', 'closed/n4/kinks3', 'single']


def space(tier, seed):
    return {'angles_2seg': ANGLES2, 'angles_3seg': ANGLES3, 'lengths': LENGTHS, 'parameters (maxjointsize, tightness)': PARAMS,
            'type_patterns': 'all words over {Line, Cubic} of length 2, 3 (4 in thorough); closed triangles and quadrilaterals',
            'cases': sum(1 for _ in gen_cases(tier))}


def replay(case):
    acc = core.ReplayAcc()
    if 'scale' in case:
        run_case((case['mode'], case['kinds'], case['angles'], case['lengths'], PARAMS[0], case['scale']), acc)
        return acc.vlist
    run_case((case['mode'], case['kinds'], case['angles'], case['lengths'], (case['maxjointsize'], case['tightness'])), acc)
    return acc.vlist
