"""C11  Every reported intersection is a real one, in range, with coherent parameters.

Product mode: all 16 ordered type pairs x configuration families built from the
shape library - transversal crossing, tangential touching, near-miss (gap 1e-3
and 1e-7 of size), disjoint with overlapping boxes, end-point contact - and
pairs of paths.  The oracle only judges what is returned.
"""
import itertools
import cmath
import math

from mc import core, isect
from mc import alphabets as AB
from mc.enc import outcome, seg_size

from svgpathtools import Line, QuadraticBezier, CubicBezier, Arc, Path

ID = 'C11'
LEVEL = 'exploration'
RULE = ('ordered shape pairs x configuration family x (tA, tB, angle); one case per configuration; non-trivial = the '
        'library returned at least one pair; distinct = distinct configuration')
ASSUMPTIONS = ['residual tolerance 1e-5*size (1e-3 with an arc) as stated by the property; operand-swap matching within 1e-4',
               'exceptions tolerated only for two arcs that are not both circular and unrotated',
               'curve sizes between 1 and 1e3']

FAMILIES = ['cross', 'touch', 'miss_1e-3', 'miss_1e-7', 'far', 'endpoint', 'node', 'cross_small_B', 'beyond_end']


def kind(s):
    return type(s).__name__[0]


SLOW_TANGENT_PAIRS = [('Q_generic', 'C_arch'), ('C_arch', 'C_sshape'), ('A_ellipse_3to1', 'A_ellipse_rot30')]


def subdivision_pair(a, b):
    """pairs solved by recursive subdivision: two curved Beziers, or two arcs not both circular/unrotated"""
    ka, kb = a[0], b[0]
    if ka in 'QC' and kb in 'QC':
        return True
    if ka == 'A' and kb == 'A':
        return not (a.startswith('A_circle') and b.startswith('A_circle'))
    return False


def configure(aname, bname, fam, tA, tB, alpha, scale):
    A = AB.make(aname, scale)
    if fam == 'cross':
        B = isect.place(bname, tB, A, tA, alpha, scale)
    elif fam == 'cross_small_B':
        # the second curve 250 times smaller than the first (a detail crossing a large stroke)
        B = isect.place(bname, tB, A, tA, alpha, scale * 0.004)
    elif fam == 'beyond_end':
        # A is a Line: B crosses the straight CONTINUATION of A, 7% of A's length past its end (or before its start)
        if not isinstance(A, Line):
            return A, None
        ext = 1.07 if tA >= 0.5 else -0.07
        ghost = Line(A.start, A.start + (A.end - A.start) * 2.0)
        B = isect.place(bname, tB, ghost, ext / 2.0, alpha, scale)
    elif fam == 'touch':
        B = isect.place(bname, tB, A, tA, 0.0, scale)
    elif fam.startswith('miss'):
        gap = float(fam.split('_')[1]) * seg_size(A)
        B = isect.place(bname, tB, A, tA, 0.0, scale)
        n = isect.tangent(A, tA) * 1j
        B = shift(B, n * gap)
    elif fam == 'far':
        B = isect.place(bname, tB, A, tA, alpha, scale)
        n = isect.tangent(A, tA) * 1j
        B = shift(B, n * 0.4 * seg_size(A))
    elif fam == 'node':
        # B passes through a point that A visits twice (the node of a loop)
        node = isect.loop_node(A)
        if node is None:
            return A, None
        B = isect.place(bname, tB, A, node[0], alpha, scale)
    elif fam == 'endpoint':
        # B starts exactly at A's end point
        B = isect.place(bname, 0.0, A, 1.0, alpha, scale)
    return A, B


def shift(B, z):
    if isinstance(B, Arc):
        return Arc(B.start + z, B.radius, B.rotation, B.large_arc, B.sweep, B.end + z)
    return type(B)(*[p + z for p in B.bpoints()])


def curve_extent(s):
    """the size of the CURVE (for an arc: of the arc itself, not of the ellipse it is cut from - a nearly straight
    arc of radius 1e7 and chord 1 has size 1)"""
    if isinstance(s, Arc):
        pts = [s.point(k / 16.0) for k in range(17)]
        return max(max(p.real for p in pts) - min(p.real for p in pts), max(p.imag for p in pts) - min(p.imag for p in pts), 1e-300)
    return seg_size(s)


def judge_pairs(A, B, pairs, case, acc, sig):
    size = max(curve_extent(A), curve_extent(B))
    has_arc = isinstance(A, Arc) or isinstance(B, Arc)
    tol = (1e-3 if has_arc else 1e-5) * size
    ok = True
    for pr in pairs:
        try:
            t1, t2 = float(pr[0]), float(pr[1])
        except Exception:
            acc.violation('malformed_pair', sig, case, observed=repr(pr))
            return False
        if not (0 <= t1 <= 1 and 0 <= t2 <= 1):
            acc.violation('parameter_out_of_range', sig, case, observed=[t1, t2])
            ok = False
            continue
        res = abs(A.point(t1) - B.point(t2))
        if not res <= tol:
            acc.violation('reported_pair_is_not_an_intersection', sig, case, observed={'pair': [t1, t2], 'distance': res},
                          expected='<= %g' % tol)
            ok = False
    return ok


SMALL_B_SHAPES = ['L_diagonal', 'Q_generic', 'C_arch', 'C_sshape', 'C_monotone']
PARALLEL_ANGLES = [0.0, 1e-16, 1e-14, 1e-12, 1e-11, 1e-10, 3e-10, 1e-9, 1e-8, 1e-7, 1e-6, 1e-4]


def check_nearly_parallel(acc, only=None):
    """two lines at an angle of 0 .. 1e-4 rad, one offset sideways by 1% of its length, both orders, several
    headings and sizes: whatever is reported must be a real common point (with exactly parallel lines there
    is none; a hair off parallel the true crossing lies far outside both)"""
    for size in (1.0, 1e-3, 1e4):
        for heading in (0.0, 0.3, 1.5707963267948966, 2.5):
            for ang in PARALLEL_ANGLES:
                for sgn in (1, -1):
                    d1 = cmath.exp(1j * heading)
                    d2 = cmath.exp(1j * (heading + sgn * ang))
                    A = Line(0.2 * size + 0.1j * size, 0.2 * size + 0.1j * size + size * d1)
                    off = 0.01 * size * 1j * d1
                    B = Line(A.start + off - 0.1 * size * d2, A.start + off + 1.3 * size * d2)
                    case = {'what': 'nearly_parallel', 'size': size, 'heading': heading, 'angle': sgn * ang}
                    if only and {k: v for k, v in only.items() if k != 'order'} != case:
                        continue
                    for order, X, Y in (('AB', A, B), ('BA', B, A)):
                        r = outcome(lambda: X.intersect(Y))
                        acc.case(dict(case, order=order), cls='nearly_parallel/%s' % ('nonempty' if r[0] == 'ok' and r[1] else 'empty'))
                        sig = {'pair': 'LL', 'family': 'nearly_parallel', 'exactly_parallel': ang == 0.0}
                        if r[0] != 'ok':
                            acc.violation('intersect_raises', dict(sig, exc=r[1]), dict(case, order=order), observed=r)
                            continue
                        judge_pairs(X, Y, r[1], dict(case, order=order), acc, sig)


def check_nearly_coincident(acc, only=None):
    """a line and a piece of (almost) the same line: the second line's end points are points of the first,
    rounded to floats, so the two directions differ by rounding noise only (1e-17 .. 1e-13 rad) - the 2x2
    system is singular up to noise and its 'solution' is noise too; nothing may be reported that is not a
    common point"""
    k = 0
    for i in range(12):
        a0 = complex(-4.3885 + 0.731 * i, 1.2078 - 0.377 * i)
        a1 = a0 + complex(0.179 + 0.0613 * i, 0.5489 - 0.0291 * i * i)
        A = Line(a0, a1)
        for (u0, u1) in ((0.1, 0.8), (0.3, 1.5), (-0.2, 0.6), (0.25, 0.75)):
            B = Line(a0 + u0 * (a1 - a0), a0 + u1 * (a1 - a0))
            if B == A or B.start == B.end:
                continue
            case = {'what': 'nearly_coincident', 'i': i, 'u': [u0, u1]}
            if only and {k_: v for k_, v in only.items() if k_ != 'order'} != case:
                continue
            for order, X, Y in (('AB', A, B), ('BA', B, A)):
                r = outcome(lambda: X.intersect(Y))
                acc.case(dict(case, order=order), cls='nearly_coincident/%s' % ('nonempty' if r[0] == 'ok' and r[1] else 'empty'))
                sig = {'pair': 'LL', 'family': 'nearly_coincident'}
                if r[0] != 'ok':
                    acc.violation('intersect_raises', dict(sig, exc=r[1]), dict(case, order=order), observed=r)
                    continue
                judge_pairs(X, Y, r[1], dict(case, order=order), acc, sig)


LEG_OFFSETS = [0.0, 0.5, -0.5, 2.0, -2.0, 10.0]


def check_leg_parallel(bname, acc, only=None):
    """lines EXACTLY parallel to a leg of the control polygon (or to an axis), at exact offsets: the
    polynomial whose roots are the crossings then has coefficients that vanish exactly, which is where a
    closed-form or special-cased root finder takes its rare branches.  Every reported pair must be real."""
    B = AB.make(bname)
    bp = [complex(q) for q in B.bpoints()]
    kb = type(B).__name__[0]
    dirs = [('leg%d' % k, bp[k + 1] - bp[k], bp[k]) for k in range(len(bp) - 1) if bp[k + 1] != bp[k]]
    dirs += [('x_axis', 1 + 0j, bp[0]), ('y_axis', 1j, bp[0]), ('chord', bp[-1] - bp[0], bp[0])]
    for dname, d, base in dirs:
        if d == 0:
            continue
        nrm = 1j * d
        for off in LEG_OFFSETS:
            a = base + off * nrm / 4.0 - 2 * d
            L = Line(a, a + 5 * d)
            case = {'what': 'leg_parallel', 'B': bname, 'direction': dname, 'offset': off}
            if only and (only['direction'], only['offset']) != (dname, off):
                continue
            if kb == 'L' and (L == B or abs((B.end - B.start).real * d.imag - (B.end - B.start).imag * d.real) == 0):
                continue        # parallel lines: overlapping or disjoint, nothing to report either way
            for order, X, Y in (('L' + kb, L, B), (kb + 'L', B, L)):
                r = outcome(lambda: X.intersect(Y))
                sig = {'pair': order, 'family': 'leg_parallel', 'on_the_leg': off == 0.0}
                acc.case(dict(case, order=order), cls='leg_parallel/%s/%s' % (order, 'nonempty' if r[0] == 'ok' and r[1] else 'empty'))
                if r[0] != 'ok':
                    if off != 0.0:
                        acc.violation('intersect_raises', dict(sig, exc=r[1]), dict(case, order=order), observed=r)
                    continue
                judge_pairs(X, Y, r[1], dict(case, order=order), acc, sig)


# the tolerance argument of the segment solvers given explicitly, by keyword and by position.  The subdivision
# solver stops at boxes sqrt(tol) across, so a tol much looser than the default is a request for less accuracy
# than the property's 1e-5 of the size (tol=1e-7 returns pairs 2e-4 apart, by design): only values whose terminal
# boxes stay below the property's tolerance are in the alphabet.
SEG_OPTS = [None, {'tol': 1e-12, 'how': 'keyword'}, {'tol': 1e-11, 'how': 'positional'}, {'tol': 1e-13, 'how': 'positional'}]
# Path.intersect(other, justonemode=False, tol=1e-12)
PATH_OPTS = [None, {'justonemode': True, 'how': 'keyword'}, {'justonemode': True, 'how': 'positional'},
             {'tol': 1e-11, 'how': 'keyword'}, {'justonemode': False, 'tol': 1e-13, 'how': 'positional'},
             {'justonemode': True, 'tol': 1e-11, 'how': 'positional'}]


def seg_isect(X, Y, opt):
    if not opt:
        return X.intersect(Y)
    if opt['how'] == 'positional':
        return X.intersect(Y, opt['tol'])
    return X.intersect(Y, tol=opt['tol'])


def path_isect(p1, p2, opt):
    if not opt:
        return p1.intersect(p2)
    if opt['how'] == 'positional':
        args = [opt.get('justonemode', False)] + ([opt['tol']] if 'tol' in opt else [])
        return p1.intersect(p2, *args)
    return p1.intersect(p2, **{k: v for k, v in opt.items() if k != 'how'})


def check_config(aname, bname, fam, tA, tB, alpha, scale, acc, opt=None):
    A, B = configure(aname, bname, fam, tA, tB, alpha, scale)
    if B is None:
        acc.filt('curve_has_no_node')
        return
    case = {'what': 'segments', 'A': aname, 'B': bname, 'family': fam, 'tA': tA, 'tB': tB, 'alpha': alpha, 'scale': scale}
    if A == B:
        acc.filt('identical_curves')
        return
    ka, kb = kind(A), kind(B)
    general_arcs = ka == 'A' and kb == 'A' and not (isect.is_circ_unrot(A) and isect.is_circ_unrot(B))
    sig = {'pair': ka + kb, 'family': fam}
    if opt:
        case['opt'] = opt
        sig['options'] = sorted(k for k in opt if k != 'how')
    r1 = outcome(lambda: seg_isect(A, B, opt))
    r2 = outcome(lambda: seg_isect(B, A, opt))
    n = len(r1[1]) if r1[0] == 'ok' else -1
    acc.case(case, cls=('%s/%s/%s' % (ka + kb, fam, 'empty' if n == 0 else ('raises' if n < 0 else 'nonempty'))) if not opt else
             'options/segments/%s/%s' % (opt['how'], 'empty' if n == 0 else ('raises' if n < 0 else 'nonempty')), nontrivial=n > 0)
    for r, X, Y, o in ((r1, A, B, 'AB'), (r2, B, A, 'BA')):
        if r[0] != 'ok':
            if general_arcs:
                acc.seen('tolerated_exception_general_arc_arc')
            else:
                acc.violation('intersect_raises', dict(sig, exc=r[1]), dict(case, order=o), observed=r)
            return
        if not judge_pairs(X, Y, r[1], dict(case, order=o), acc, dict(sig, order=o) if False else sig):
            return
    # operand swap: the same crossings with the parameters exchanged.  "Same crossings" is judged
    # on crossings, not on list lengths: every pair of one answer must have a partner within 1e-4
    # in the other (how often one crossing is listed is C12's question).  Two arcs that are not
    # both circular and unrotated go through the solver documented as incomplete, which keeps at
    # most two of up to four crossings: for them only the returned pairs themselves are judged.
    if general_arcs:
        return
    a = [(float(x), float(y)) for x, y in r1[1]]
    b = [(float(y), float(x)) for x, y in r2[1]]
    um = [p for p in a if not any(abs(p[0] - q[0]) <= 1e-4 and abs(p[1] - q[1]) <= 1e-4 for q in b)]
    um2 = [q for q in b if not any(abs(p[0] - q[0]) <= 1e-4 and abs(p[1] - q[1]) <= 1e-4 for p in a)]
    if um or um2:
        acc.violation('operand_swap_disagrees', sig, case, observed={'A.intersect(B)': a, 'B.intersect(A) swapped': b},
                      detail='unmatched: %r / %r' % (um, um2))


PATHS = {
    'P_LQ': ('L_diagonal', 'Q_generic'), 'P_CC': ('C_arch', 'C_sshape'), 'P_LA': ('L_horizontal', 'A_ellipse_3to1'),
    'P_zig': 'zigzag', 'P_hair': 'hairpin', 'P_CL': ('C_loop', 'L_vertical'), 'P_QA': ('Q_nondyadic', 'A_circle_small_ccw'),
}


def build_path(name, shift_=0j, rot=0):
    from mc.props.c09 import chain
    d = PATHS[name]
    if d == 'zigzag':
        pts = [complex(-1.03 + 2.1 * i, (-2.17 if i % 2 == 0 else 4.31) + 0.11 * i) for i in range(6)]
        segs = [Line(pts[i], pts[i + 1]) for i in range(5)]
    elif d == 'hairpin':
        # a cubic that doubles back on itself (a one-pass quadrature misjudges its length), then a line
        segs = [CubicBezier(0j, 3 + 0.1j, -2 + 0.1j, 1 + 0j), Line(1 + 0j, 1 + 3j)]
    else:
        segs = chain(d)
    w = cmath.exp(1j * math.radians(rot))
    out = []
    for s in segs:
        if isinstance(s, Arc):
            out.append(Arc(s.start * w + shift_, s.radius, s.rotation + rot, s.large_arc, s.sweep, s.end * w + shift_))
        else:
            out.append(type(s)(*[p * w + shift_ for p in s.bpoints()]))
    # exact joints
    for i in range(1, len(out)):
        if isinstance(out[i], Arc):
            out[i] = Arc(out[i - 1].end, out[i].radius, out[i].rotation, out[i].large_arc, out[i].sweep, out[i].end)
        else:
            out[i].start = out[i - 1].end
    return AB.derive_path(Path(*out))


def check_paths(n1, n2, sh, rot, acc, opt=None):
    p1 = build_path(n1)
    p2 = build_path(n2, sh, rot)
    case = {'what': 'paths', 'p1': n1, 'p2': n2, 'shift': core.jz(sh), 'rot': rot}
    if p1 == p2:
        return
    general = any(isinstance(a, Arc) for a in p1) and any(isinstance(b, Arc) for b in p2)
    sig = {'pair': 'paths'}
    if opt:
        case['opt'] = opt
        sig['options'] = sorted(k for k in opt if k != 'how')
    r = outcome(lambda: path_isect(p1, p2, opt))
    if opt and opt.get('justonemode') and r[0] == 'ok':
        # one crossing (the first found) instead of a list; nothing found: an empty list
        full = outcome(lambda: build_path(n1).intersect(build_path(n2, sh, rot)))
        one = r[1]
        if full[0] == 'ok':
            if (len(full[1]) == 0) != (isinstance(one, list) and len(one) == 0):
                acc.violation('justonemode_disagrees_with_full_answer', sig, case, observed=repr(one)[:300], expected='%d crossings in the full answer' % len(full[1]))
                return
            if full[1]:
                try:
                    (T1, _, t1), (T2, _, t2) = one
                    if not any(abs(T1 - f[0][0]) <= 1e-4 and abs(T2 - f[1][0]) <= 1e-4 for f in full[1]):
                        acc.violation('justonemode_disagrees_with_full_answer', sig, case, observed=[T1, T2],
                                      expected=[[f[0][0], f[1][0]] for f in full[1]])
                        return
                except Exception:
                    acc.violation('malformed_pair', sig, case, observed=repr(one)[:300])
                    return
        r = ('ok', [one] if not isinstance(one, list) else one)
    n = len(r[1]) if r[0] == 'ok' else -1
    acc.case(case, cls=('paths/%s' if not opt else 'options/paths/%s') % ('empty' if n == 0 else ('raises' if n < 0 else 'nonempty')), nontrivial=n > 0)
    if r[0] != 'ok':
        if general:
            acc.seen('tolerated_exception_general_arc_arc')
        else:
            acc.violation('intersect_raises', dict(sig, exc=r[1]), case, observed=r)
        return
    size = 20.0
    for item in r[1]:
        try:
            (T1, s1, t1), (T2, s2, t2) = item
        except Exception:
            acc.violation('malformed_pair', sig, case, observed=repr(item))
            return
        if not any(s1 is s for s in p1) or not any(s2 is s for s in p2):
            acc.violation('segment_not_member_of_path', sig, case)
            return
        has_arc = isinstance(s1, Arc) or isinstance(s2, Arc)
        tol = (1e-3 if has_arc else 1e-5) * size
        pts = [p1.point(T1), s1.point(t1), s2.point(t2), p2.point(T2)]
        if not (0 <= T1 <= 1 and 0 <= T2 <= 1 and 0 <= t1 <= 1 and 0 <= t2 <= 1):
            acc.violation('parameter_out_of_range', sig, case, observed=[T1, t1, T2, t2])
            return
        if not (abs(pts[0] - pts[1]) <= 1e-6 * size and abs(pts[2] - pts[3]) <= 1e-6 * size and abs(pts[1] - pts[2]) <= tol):
            acc.violation('path_parameters_incoherent', sig, case, observed=pts)
            return
        # T1, T2 also address that point on a path built afresh from the same segment values (the T of a point
        # is a property of the path, not of what was asked of the object before)
        k1 = [i for i, s_ in enumerate(p1) if s_ is s1][0]
        k2 = [i for i, s_ in enumerate(p2) if s_ is s2][0]
        f1 = Path(*[AB.fresh_copy(s_) for s_ in p1])
        f2 = Path(*[AB.fresh_copy(s_) for s_ in p2])
        fpts = [f1.point(T1), f1[k1].point(t1), f2[k2].point(t2), f2.point(T2)]
        if not (abs(fpts[0] - fpts[1]) <= 1e-6 * size and abs(fpts[2] - fpts[3]) <= 1e-6 * size):
            acc.violation('path_parameters_incoherent', dict(sig, against='freshly_built_equal_paths'), case, observed=fpts)
            return


def tier_params(tier, seed):
    if tier == 'quick':
        return {'tA': [0.2, 0.7], 'tB': [0.3], 'alpha': [30, 90], 'scales': [1.0]}
    return {'tA': [0.2, 0.5, 0.7], 'tB': [0.3, 0.6], 'alpha': [10, 30, 90, 170], 'scales': [1.0, 100.0]}


def shards(tier, seed):
    out = [{'what': 'segments', 'A': a, 'B': b} for a in isect.SHAPES for b in isect.SHAPES]
    out += [{'what': 'paths', 'p1': a, 'p2': b} for a in PATHS for b in PATHS]
    out += [{'what': 'leg_parallel', 'B': b} for b in list(AB.LINES) + list(AB.QUADS) + list(AB.CUBICS)]
    out.append({'what': 'nearly_parallel'})
    # the same paths with a history (measured with default or loose accuracy, reversed twice, parsed, strict arcs ...)
    out += [{'what': 'paths', 'p1': a, 'p2': b, 'pprov': pv} for a in PATHS for b in PATHS
            for pv in ('measured', 'loosely_measured', 'segments_loosely_measured', 'loosely_measured_reversed_twice', 'reversed_twice', 'parsed',
                       'strict_arcs', 'module_settings_changed_and_restored') if tier == 'thorough' or (a, b) in (('P_CC', 'P_LQ'), ('P_CL', 'P_zig'), ('P_LA', 'P_QA'), ('P_QA', 'P_CC'), ('P_hair', 'P_zig'), ('P_hair', 'P_LQ'), ('P_CC', 'P_hair'))]
    # nearly straight arcs (tiny sweep) against lines and curves, both orders
    out += [{'what': 'segments', 'A': a, 'B': b, 'thin': True} for x in AB.EXTRA_ARCS for y in ('L_diagonal', 'Q_generic', 'C_arch', 'L_shallow')
            for a, b in ((x, y), (y, x))]
    # non-default options of the solvers (tol=, justonemode=), keyword and positional
    out += [{'what': 'segments', 'A': a, 'B': b, 'opt': oi} for a in SMALL_B_SHAPES + ['A_ellipse_3to1'] for b in SMALL_B_SHAPES + ['A_ellipse_3to1']
            for oi in range(1, len(SEG_OPTS))]
    out += [{'what': 'paths', 'p1': a, 'p2': b, 'opt': oi} for a in PATHS for b in PATHS for oi in range(1, len(PATH_OPTS))]
    # long paths (grids of crossings; sizes bracket 256 and 4096 segment pairs): reported T coherent with (segment, t)
    out += [{'what': 'grid', 'size': list(sz), 'kinds': k, 'long': lg}
            for sz in (isect.GRID_SIZES_QUICK if tier == 'quick' else isect.GRID_SIZES_THOROUGH)
            for k in (('L',) if sz[0] * sz[1] > 1100 else ('L', 'LQC')) for lg in (False, True, 'over_zigzag', 'far_fine')]
    return out


def run_shard(desc, tier, seed):
    acc = core.Acc()
    tp = tier_params(tier, seed)
    if desc['what'] == 'leg_parallel':
        check_leg_parallel(desc['B'], acc)
        return acc
    if desc['what'] == 'nearly_parallel':
        check_nearly_parallel(acc)
        check_nearly_coincident(acc)
        return acc
    if desc['what'] == 'grid':
        isect.check_grid(desc['size'][0], desc['size'][1], desc['kinds'], desc['long'], acc, ('coherent',), 'C11')
        return acc
    if desc['what'] == 'segments' and desc.get('opt'):
        for fam in ('cross', 'endpoint', 'node', 'far', 'miss_1e-3'):
            for tA, tB, al in itertools.product(tp['tA'], tp['tB'], tp['alpha'][:2]):
                check_config(desc['A'], desc['B'], fam, tA, tB, al, 1.0, acc, opt=SEG_OPTS[desc['opt']])
        return acc
    if desc['what'] == 'segments' and desc.get('thin'):
        for fam in ('cross', 'far', 'endpoint'):
            for tA, tB, al in itertools.product((0.1, 0.5, 0.9), (0.1, 0.5, 0.9), (30, 90)):
                check_config(desc['A'], desc['B'], fam, tA, tB, al, 1.0, acc)
        return acc
    if desc['what'] == 'segments':
        line_pair = desc['A'][0] == 'L' or desc['B'][0] == 'L'
        for sc in tp['scales'] + ([1e-9, 1e9] if line_pair and desc['A'][0] != 'A' and desc['B'][0] != 'A' else []):
            for fam in FAMILIES:
                for tA, tB, al in itertools.product(tp['tA'], tp['tB'], tp['alpha']):
                    if fam in ('touch', 'miss_1e-3', 'miss_1e-7') and al != tp['alpha'][0]:
                        continue
                    if fam == 'cross_small_B' and ((tA, tB) != (tp['tA'][0], tp['tB'][0]) or sc != 1.0 or
                                                   desc['A'] not in SMALL_B_SHAPES or desc['B'] not in SMALL_B_SHAPES):
                        continue
                    if sc in (1e-9, 1e9) and fam not in ('cross', 'beyond_end', 'endpoint', 'far'):
                        continue
                    if sc != 1.0 and subdivision_pair(desc['A'], desc['B']) and fam not in ('cross', 'endpoint', 'node'):
                        # the subdivision solver's tolerances are absolute: at scale 100 every miss / far
                        # configuration costs 7 more halving levels for nothing new
                        acc.filt('scaled_miss_of_two_curved_segments_skipped_for_cost')
                        continue
                    if fam in ('touch', 'miss_1e-7') and subdivision_pair(desc['A'], desc['B']):
                        # (near-)tangency makes the subdivision solver visit thousands of box pairs
                        # (20-50 s per call): a fixed handful in the thorough tier only
                        if tier != 'thorough' or (desc['A'], desc['B']) not in SLOW_TANGENT_PAIRS or \
                                (tA, tB) != (tp['tA'][0], tp['tB'][0]) or sc != 1.0:
                            acc.filt('tangency_of_two_curved_segments_skipped_for_cost')
                            continue
                    check_config(desc['A'], desc['B'], fam, tA, tB, al, sc, acc)
    else:
        for sh in (0.37 + 0.21j, 2.3 - 1.1j, -1.7 + 2.9j):
            for rot in (0, 40, 115):
                check_paths(desc['p1'], desc['p2'], sh, rot, acc, opt=PATH_OPTS[desc.get('opt', 0)])
    return acc


def expected_classes(tier):
    out = []
    for a in 'LQCA':
        for b in 'LQCA':
            out.append('%s%s/cross/nonempty' % (a, b))
    out += ['grid/lt256', 'grid/ge256', 'grid/ge4096', 'paths/nonempty', 'QQ/miss_1e-3/empty', 'CC/far/empty', 'CQ/node/nonempty', 'CL/node/nonempty']
    return out


def space(tier, seed):
    tp = tier_params(tier, seed)
    return {'segment_solver_options': SEG_OPTS, 'path_intersect_options': PATH_OPTS, 'shapes': isect.SHAPES, 'families': FAMILIES, 'tA': tp['tA'], 'tB': tp['tB'], 'angles': tp['alpha'], 'scales': tp['scales'],
            'paths': {k: v if isinstance(v, str) else list(v) for k, v in PATHS.items()}, 'path_shifts': 3, 'path_rotations': [0, 40, 115]}


def replay(case):
    acc = core.ReplayAcc()
    if case['what'] == 'nearly_coincident':
        check_nearly_coincident(acc, only=case)
        acc.vlist = [v for v in acc.vlist if v['case'].get('order') == case.get('order')]
    elif case['what'] == 'nearly_parallel':
        check_nearly_parallel(acc, only=case)
        acc.vlist = [v for v in acc.vlist if v['case'].get('order') == case.get('order')]
    elif case['what'] == 'leg_parallel':
        check_leg_parallel(case['B'], acc, only=case)
        acc.vlist = [v for v in acc.vlist if v['case'].get('order') == case.get('order')]
    elif case['what'] == 'grid':
        isect.check_grid(case['n_comb'], case['n_rungs'], case['kinds'], case['long_stroke'], acc, ('coherent',), 'C11')
        acc.vlist = [v for v in acc.vlist if v['case'].get('order') == case.get('order')]
    elif case['what'] == 'segments':
        check_config(case['A'], case['B'], case['family'], case['tA'], case['tB'], case['alpha'], case['scale'], acc, opt=case.get('opt'))
    else:
        check_paths(case['p1'], case['p2'], complex(*case['shift']), case['rot'], acc, opt=case.get('opt'))
    return acc.vlist
