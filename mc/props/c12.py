"""C12  Every transversal crossing is reported, exactly once.

Product mode.
 * constructed crossings: curve A (library) at tA x curve B (library) at tB, B
   placed by the rigid motion that makes B(tB) = A(tA) with tangent angle alpha;
   all ordered type pairs (two arcs only when both circular and unrotated);
   admitted only if an independent neighbourhood search finds no second close
   approach within 0.05 in parameter.  Oracle: exactly one reported pair within
   1e-4 of (tA, tB).
 * exact counts: Line x {Line, Quadratic, Cubic} pairs over a lattice of lines
   through each curve's box; the number of crossings is decided by Sturm
   sequences over Q; pairs not in general position are filtered (counted).
 * paths: polylines x Bezier chains, expected count = sum of exact pair counts.
"""
import cmath
import itertools
import math

from mc import core, isect
from mc import alphabets as AB
from mc.enc import outcome, seg_size

from svgpathtools import Line, QuadraticBezier, CubicBezier, Arc, Path

ID = 'C12'
LEVEL = 'exploration'
RULE = ('constructed crossings: shape pair x (tA,tB) x angle grid; exact counts: curve x lattice lines; paths; one case per '
        'configuration; non-trivial = admitted (not filtered) configuration; distinct = distinct configuration')
ASSUMPTIONS = ['"well separated" is decided by an independent dense neighbourhood search (201x201 samples in the +-0.05 window)',
               'exact crossing counts by rational root isolation; pairs with a root at an end, a tangency or an undecided side are filtered',
               'curve sizes between 0.1 and 1e3 for curved pairs and arcs (those solvers\' tolerances are absolute and user-tunable: 1e-6 boxes still give 1e-4 in parameter at size 0.1); Line-Line and Line-Bezier pairs at scales 1e-9..1e9']


def kind(seg):
    return type(seg).__name__[0]


def tier_params(tier, seed):
    if tier == 'quick':
        return {'tA': [0.2, 0.7], 'tB': [0.3, 0.6], 'alpha': [30, 90, 170], 'scales': [1.0, 0.03], 'lat': 4, 'line_scales': [1e-5, 1e-7, 1e6]}
    return {'tA': [0.2, 0.5, 0.7], 'tB': [0.3, 0.6], 'alpha': [10, 30, 60, 90, 120, 170], 'scales': [1.0, 100.0, 0.03], 'lat': 5, 'line_scales': [1e-4, 1e-5, 1e-6, 1e-7, 1e-9, 1e6, 1e9]}


# how the crossing is asked for: the segment method with its default, with an explicit tolerance (keyword and
# positional; only values at or below the default: a looser tol is a request for less accuracy), and - for two
# Bezier curves - the subdivision helper called directly with its own defaults, with tol alone, or both tolerances
CALLS = ['method', 'method_tol_keyword', 'method_tol_positional', 'helper_defaults', 'helper_tol_only_keyword',
         'helper_tol_only_positional', 'helper_both_positional']


def call_intersect(A, B, how):
    if how == 'method':
        return A.intersect(B)
    if how == 'method_tol_keyword':
        return A.intersect(B, tol=1e-12)
    if how == 'method_tol_positional':
        return A.intersect(B, 1e-13)
    from svgpathtools.bezier import bezier_intersections
    L = max(A.length(), B.length())
    a, b = list(A.bpoints()), list(B.bpoints())
    if how == 'helper_defaults':
        return bezier_intersections(a, b, L)
    if how == 'helper_tol_only_keyword':
        return bezier_intersections(a, b, L, tol=1e-3)      # tol: how far apart two solutions must be to count as distinct
    if how == 'helper_tol_only_positional':
        return bezier_intersections(a, b, L, 1e-3)
    return bezier_intersections(a, b, L, 1e-10, 1e-10)


def check_constructed(aname, bname, tA, tB, alpha, scale, acc, how='method', scale_b=None):
    A = AB.make(aname, scale)
    B = isect.place(bname, tB, A, tA, alpha, scale if scale_b is None else scale_b)
    ka, kb = kind(A), kind(B)
    case = {'what': 'constructed', 'A': aname, 'B': bname, 'tA': tA, 'tB': tB, 'alpha': alpha, 'scale': scale}
    if scale_b is not None:
        case['scale_b'] = scale_b
    if ka == 'A' and kb == 'A' and not (isect.is_circ_unrot(A) and isect.is_circ_unrot(B)):
        acc.filt('arc_arc_general_solver_excluded')
        return
    if A == B:
        acc.filt('identical_curves')
        return
    # the construction must really produce a crossing at (tA, tB)
    if abs(A.point(tA) - B.point(tB)) > 1e-9 * max(seg_size(A), seg_size(B)):
        acc.filt('construction_inexact')
        return
    if isect.other_approach_near(A, B, tA, tB):
        acc.filt('second_approach_in_window')
        return
    pair = ka + kb
    if how != 'method':
        if how.startswith('helper') and (ka in 'LA' or kb in 'LA'):
            return
        case['call'] = how
    acc.case(case, cls='constructed/%s' % pair if how == 'method' else 'constructed_call/%s' % how)
    if not 0.01 <= scale <= 1000:
        acc.seen('constructed_extreme_scale/%s' % pair)
    r = outcome(lambda: call_intersect(A, B, how))
    sig = {'pair': pair}
    if how != 'method':
        sig['call'] = how
    if scale_b is not None:
        sig['sizes'] = 'very_different'
    if not 0.01 <= scale <= 1000:
        sig['scale'] = 'tiny' if scale < 1 else 'huge'
    if ka == 'A' or kb == 'A':
        arc = A if ka == 'A' else B
        sig['arc_sweep'] = bool(arc.sweep)
        sig['arc_rotated'] = arc.rotation != 0
    if r[0] != 'ok':
        acc.violation('intersect_raises', dict(sig, exc=r[1]), case, observed=r)
        return
    # the helper called with its OWN default tol_deC = 1e-8 stops at boxes sqrt(1e-8) = 1e-4 across: its answers are that
    # coarse by design (the segment methods pass 1e-12), so the window is ten boxes there
    win = 1e-3 if how in ('helper_defaults', 'helper_tol_only_keyword', 'helper_tol_only_positional') else 1e-4
    hits = [(t1, t2) for (t1, t2) in r[1] if abs(t1 - tA) <= win and abs(t2 - tB) <= win]
    if len(hits) != 1:
        acc.violation('crossing_missed' if not hits else 'crossing_reported_more_than_once', sig, case,
                      observed=[list(map(float, h)) for h in r[1]][:12], expected='one pair within %g of (%r, %r)' % (win, tA, tB),
                      detail='%d reported in total, %d near the constructed crossing' % (len(r[1]), len(hits)))


def check_thin_arcs(acc, only=None):
    """nearly straight arcs (radius 1e7 / 3e6, chord ~1: sweeps of 6e-6 / 4e-5 degrees) crossed transversally by a line
    and by a cubic well inside both"""
    for aname in AB.EXTRA_ARCS:
        A = AB.make(aname)
        for tA in (0.1, 0.3, 0.5, 0.7, 0.9):
            P = A.point(tA)
            d = (A.end - A.start) / abs(A.end - A.start)
            for other in ('line', 'cubic'):
                if other == 'line':
                    B = Line(P - 0.3j * d + 0.05 * d, P + 0.4j * d - 0.0666 * d)
                    tB = 3.0 / 7.0
                else:
                    B = CubicBezier(P - 0.3j * d, P - 0.1j * d + 0.02 * d, P + 0.1j * d - 0.02 * d, P + 0.3j * d)
                    tB = 0.5
                for order, X, Y, tx, ty in (('arc_first', A, B, tA, tB), ('arc_second', B, A, tB, tA)):
                    case = {'what': 'thin_arc', 'arc': aname, 'tA': tA, 'other': other, 'order': order}
                    if only is not None and only != case:
                        continue
                    acc.case(case, cls='thin_arc/%s/%s' % (other, order))
                    r = outcome(lambda: X.intersect(Y))
                    sig = {'pair': ('A' + other[0].upper()) if order == 'arc_first' else (other[0].upper() + 'A'), 'thin_arc': True,
                           'arc_rotated': A.rotation != 0}
                    if r[0] != 'ok':
                        acc.violation('intersect_raises', dict(sig, exc=r[1]), case, observed=r)
                        continue
                    hits = [h for h in r[1] if abs(h[0] - tx) <= 1e-4 and abs(h[1] - ty) <= 1e-4]
                    if len(hits) != 1:
                        acc.violation('crossing_missed' if not hits else 'crossing_reported_more_than_once', sig, case,
                                      observed=[list(map(float, h)) for h in r[1]][:6], expected='one pair within 1e-4 of (%r, %r)' % (tx, ty))


def check_single_segment_paths(acc, only=None):
    """paths that consist of ONE segment - among them a single Bezier that is a closed loop (start == end) - crossed by
    a line path: Path.intersect reports what the segment solver reports for the pair (the segment families decide that
    one), every crossing once"""
    for name in ('C_teardrop', 'C_loop', 'C_arch', 'Q_generic', 'A_ellipse_3to1', 'L_diagonal'):
        seg = AB.make(name)
        xs = [seg.point(k / 40.0) for k in range(41)]
        cx = sum(p.real for p in xs) / len(xs)
        cy = sum(p.imag for p in xs) / len(xs)
        ext = max(abs(p - complex(cx, cy)) for p in xs)
        for ang in (17.0, 75.0, 140.0):
            for off in (0.0, 0.21, -0.33):
                d = cmath.exp(1j * math.radians(ang))
                c0 = complex(cx, cy) + 1j * d * off * ext
                L = Line(c0 - 2.1 * ext * d, c0 + 1.9 * ext * d)
                case = {'what': 'single_segment_path', 'shape': name, 'angle': ang, 'offset': off}
                if only is not None and only != case:
                    continue
                want = outcome(lambda: seg.intersect(L))
                if want[0] != 'ok':
                    continue
                for order in ('path_first', 'line_first'):
                    p1, p2 = (Path(AB.make(name)), Path(L)) if order == 'path_first' else (Path(L), Path(AB.make(name)))
                    r = outcome(lambda: p1.intersect(p2))
                    acc.case(dict(case, order=order), cls='single_segment_path/%s/%d' % (name[0], min(len(want[1]), 3)), nontrivial=len(want[1]) > 0)
                    sig = {'pair': 'paths', 'single_segment': name[0], 'closed_loop': seg.start == seg.end}
                    if r[0] != 'ok':
                        acc.violation('intersect_raises', dict(sig, exc=r[1]), dict(case, order=order), observed=r)
                    elif len(r[1]) != len(want[1]):
                        acc.violation('crossing_missed' if len(r[1]) < len(want[1]) else 'crossing_reported_more_than_once', sig, dict(case, order=order),
                                      observed=len(r[1]), expected='%d crossings, as the segment solver reports for this pair' % len(want[1]))


AXIS_TILTS = [0.0, 1e-14, 1e-12, 1e-10, 1e-8, 1e-7, 1e-6, 1e-5, 2.0 ** -12, 1e-3]
AXIS_ARCS = {'half_circle_100': (-100j, 100 + 100j, 0, False, True, 100j),
             'circle_small_ccw': AB.ARCS['A_circle_small_ccw'], 'ellipse_3to1': AB.ARCS['A_ellipse_3to1'],
             'circle_large_cw': AB.ARCS['A_circle_large_cw']}


def check_axis_lines(acc, only=None):
    """unrotated arcs crossed by lines that are vertical / horizontal only UP TO A TILT (0 .. 1e-3 rad):
    the closed-form branch solves for x and for y separately, and a candidate (x_i, y_j) with mismatched
    roots passes tolerant membership tests exactly when the two x (or y) roots nearly coincide"""
    for aname, spec in AXIS_ARCS.items():
        A = Arc(*spec)
        size = seg_size(A)
        for tA in (0.2, 0.37, 0.6, 0.85):
            P = A.point(tA)
            for axis in ('vertical', 'horizontal'):
                for tilt in AXIS_TILTS:
                    for sgn in (1, -1):
                        d = complex(sgn * tilt, 1.0) if axis == 'vertical' else complex(1.0, sgn * tilt)
                        L = Line(P - 0.37 * size * d, P + 0.63 * size * d)
                        case = {'what': 'axis_lines', 'arc': aname, 'tA': tA, 'axis': axis, 'tilt': sgn * tilt}
                        if only and case != only:
                            continue
                        # transversal?  (a tangent vertical line at the extreme point is not in the property)
                        tan = isect.tangent(A, tA)
                        if abs(tan.real * d.imag - tan.imag * d.real) / abs(d) < 0.1:
                            acc.filt('axis_line_nearly_tangent')
                            continue
                        acc.case(case, cls='axis_lines/%s' % axis)
                        for order, X, Y, tx, ty in (('AL', A, L, tA, 0.37), ('LA', L, A, 0.37, tA)):
                            r = outcome(lambda: X.intersect(Y))
                            sig = {'pair': order, 'family': 'axis_lines', 'axis': axis, 'tilted': tilt != 0}
                            if r[0] != 'ok':
                                acc.violation('intersect_raises', dict(sig, exc=r[1]), dict(case, order=order), observed=r)
                                continue
                            hits = [(float(a), float(b)) for a, b in r[1] if abs(a - tx) <= 1e-4 and abs(b - ty) <= 1e-4]
                            if len(hits) != 1:
                                acc.violation('crossing_missed' if not hits else 'crossing_reported_more_than_once', sig, dict(case, order=order),
                                              observed=[[float(a), float(b)] for a, b in r[1]], expected='one pair within 1e-4 of (%r, %r)' % (tx, ty))


def check_circles(R, bscale, tA, tB, alpha, acc):
    """two circular, unrotated arcs with very different radii crossing transversally"""
    A = Arc(0j, complex(R, R), 0, 0, 1, complex(40.0, 0.0))
    B = isect.place('A_circle_small_ccw', tB, A, tA, alpha, bscale)
    case = {'what': 'circles', 'R': R, 'bscale': bscale, 'tA': tA, 'tB': tB, 'alpha': alpha}
    if not (isect.is_circ_unrot(A) and isect.is_circ_unrot(B)):
        acc.filt('not_circular_unrotated')
        return
    if abs(A.point(tA) - B.point(tB)) > 1e-9 * 40:
        acc.filt('construction_inexact')
        return
    if isect.other_approach_near(A, B, tA, tB):
        acc.filt('second_approach_in_window')
        return
    ratio = R / (2.0 * bscale)
    acc.case(case, cls='circles/ratio_%s' % ('le1e3' if ratio <= 1e3 else 'gt1e3'))
    for order, X, Y, tx, ty in (('AB', A, B, tA, tB), ('BA', B, A, tB, tA)):
        r = outcome(lambda: X.intersect(Y))
        sig = {'pair': 'AA', 'family': 'circles', 'radius_ratio': 'le1e3' if ratio <= 1e3 else 'gt1e3'}
        if r[0] != 'ok':
            acc.violation('intersect_raises', dict(sig, exc=r[1]), dict(case, order=order), observed=r)
            continue
        hits = [(t1, t2) for (t1, t2) in r[1] if abs(t1 - tx) <= 1e-4 and abs(t2 - ty) <= 1e-4]
        if len(hits) != 1:
            acc.violation('crossing_missed' if not hits else 'crossing_reported_more_than_once', sig, dict(case, order=order),
                          observed=[list(map(float, h)) for h in r[1]][:8], expected='one pair within 1e-4 of (%r, %r)' % (tx, ty))


def lattice_lines(seg, n):
    xs = [complex(p).real for p in seg.bpoints()]
    ys = [complex(p).imag for p in seg.bpoints()]
    x0, x1, y0, y1 = min(xs), max(xs), min(ys), max(ys)
    w, h = max(x1 - x0, 1.0), max(y1 - y0, 1.0)
    gx = [x0 - 0.31 * w + (1.62 * w) * i / (n - 1) + 0.0137 * i for i in range(n)]
    gy = [y0 - 0.29 * h + (1.58 * h) * j / (n - 1) - 0.0071 * j for j in range(n)]
    pts = [complex(a, b) for a in gx for b in gy]
    for i, p in enumerate(pts):
        for j, q in enumerate(pts):
            if i != j:
                yield p, q


def check_exact(bname, rot, n, acc, only=None):
    B = AB.make(bname, rot=rot)
    kb = kind(B)
    for p, q in lattice_lines(B, n):
        if only and (core.jz(p), core.jz(q)) != only:
            continue
        L = Line(p, q)
        if kb == 'L' and L == B:
            continue
        exact = isect.exact_line_bezier_count(list(B.bpoints()), p, q)
        case = {'what': 'exact', 'B': bname, 'rot': rot, 'line': [core.jz(p), core.jz(q)]}
        if exact is None:
            acc.filt('not_general_position')
            continue
        acc.case(case, cls='exact/%s/count%d' % (kb, exact), nontrivial=exact > 0)
        for order, fn in (('L' + kb, lambda: L.intersect(B)), (kb + 'L', lambda: B.intersect(L))):
            r = outcome(fn)
            if r[0] != 'ok':
                acc.violation('intersect_raises', {'pair': order, 'exc': r[1]}, dict(case, order=order), observed=r)
            elif len(r[1]) != exact:
                acc.violation('wrong_number_of_crossings', {'pair': order, 'relation': 'fewer' if len(r[1]) < exact else 'more'},
                              dict(case, order=order), observed=[list(map(float, h)) for h in r[1]], expected=exact)


PATH_PAIRS = [
    (('zigzag', 5), ('chain', ('C_arch', 'Q_generic', 'C_sshape'))),
    (('zigzag', 3), ('chain', ('C_loop',))),
    (('zigzag', 7), ('chain', ('Q_generic', 'L_diagonal', 'C_monotone'))),
    (('zigzag', 4), ('zigzag2', 5)),
]


def build_path(desc):
    from mc.props.c09 import chain
    if desc[0] == 'chain':
        return Path(*chain(desc[1]))
    if desc[0] == 'zigzag':
        n = desc[1]
        pts = [complex(-1.03 + 13.1 * i / n, (-2.17 if i % 2 == 0 else 4.31) + 0.11 * i) for i in range(n + 1)]
        return Path(*[Line(pts[i], pts[i + 1]) for i in range(n)])
    if desc[0] == 'zigzag2':
        n = desc[1]
        pts = [complex((-0.57 if i % 2 == 0 else 9.3) + 0.23 * i, -1.9 + 6.4 * i / n) for i in range(n + 1)]
        return Path(*[Line(pts[i], pts[i + 1]) for i in range(n)])
    raise ValueError(desc)


def check_paths(acc):
    for d1, d2 in PATH_PAIRS:
        p1, p2 = build_path(d1), build_path(d2)
        exact = 0
        ok = True
        for s1 in p1:
            for s2 in p2:
                if isinstance(s1, Line):
                    c = isect.exact_line_bezier_count(list(s2.bpoints()), s1.start, s1.end)
                else:
                    c = isect.exact_line_bezier_count(list(s1.bpoints()), s2.start, s2.end)
                if c is None:
                    ok = False
                else:
                    exact += c
        case = {'what': 'paths', 'p1': list(d1), 'p2': list(d2)}
        if not ok:
            acc.filt('path_pair_not_general_position')
            continue
        acc.case(case, cls='paths/count%d' % min(exact, 9), nontrivial=exact > 0)
        for order, a, b in (('p1p2', p1, p2), ('p2p1', p2, p1)):
            r = outcome(lambda: a.intersect(b))
            if r[0] != 'ok':
                acc.violation('intersect_raises', {'pair': 'paths', 'exc': r[1]}, dict(case, order=order), observed=r)
            elif len(r[1]) != exact:
                acc.violation('wrong_number_of_crossings', {'pair': 'paths', 'relation': 'fewer' if len(r[1]) < exact else 'more'},
                              dict(case, order=order), observed=len(r[1]), expected=exact)


def shards(tier, seed):
    tp = tier_params(tier, seed)
    out = [{'what': 'constructed', 'A': a, 'B': b} for a in isect.SHAPES for b in isect.SHAPES]
    bez = [n for n in list(AB.LINES) + list(AB.QUADS) + list(AB.CUBICS)]
    out += [{'what': 'exact', 'B': b, 'rot': r} for b in bez for r in (0, 37)]
    out.append({'what': 'paths'})
    out.append({'what': 'circles'})
    out.append({'what': 'axis_lines'})
    out.append({'what': 'single_segment_paths'})
    out.append({'what': 'thin_arcs'})
    out += [{'what': 'grid', 'size': list(sz), 'kinds': k, 'long': lg}
            for sz in (isect.GRID_SIZES_QUICK if tier == 'quick' else isect.GRID_SIZES_THOROUGH)
            for k in (('L',) if sz[0] * sz[1] > 1100 else ('L', 'LQC')) for lg in (False, True, 'over_zigzag', 'far_fine')]
    return out


def run_shard(desc, tier, seed):
    acc = core.Acc()
    tp = tier_params(tier, seed)
    if desc['what'] == 'constructed':
        for sc in tp['scales']:
            for tA, tB, al in itertools.product(tp['tA'], tp['tB'], tp['alpha']):
                check_constructed(desc['A'], desc['B'], tA, tB, al, sc, acc)
                if sc == 1.0 and (tA, tB) == (tp['tA'][0], tp['tB'][0]) or (tier == 'thorough' and sc == 1.0):
                    for how in CALLS[1:]:
                        check_constructed(desc['A'], desc['B'], tA, tB, al, sc, acc, how=how)
        # arcs: also crossings near either END of the arc (angle ranges that wrap past +-360 degrees are
        # traversed in their last part only)
        if desc['A'][0] == 'A' or desc['B'][0] == 'A':
            for tA, tB in ((0.93, 0.45), (0.06, 0.5), (0.45, 0.93), (0.5, 0.06), (0.93, 0.93)):
                for al in tp['alpha'][:2]:
                    check_constructed(desc['A'], desc['B'], tA, tB, al, 1.0, acc)
        # pairs solved in closed form / by polynomial roots (a Line with a Line or a Bezier) have no
        # absolute tolerance to tune: they must work at any drawing scale
        ka, kb = desc['A'][0], desc['B'][0]
        # a long stroke crossed by a very short one (and the reverse): sizes 1e9 apart
        if 'L' in (ka, kb) and ka in 'LQC' and kb in 'LQC':
            for sa, sb in ((1e6, 1e-3), (1e-3, 1e6), (1e3, 1e-6), (1.0, 1e-9)):
                for tA, tB, al in itertools.product(tp['tA'][:2], tp['tB'][:1], tp['alpha'][:3]):
                    check_constructed(desc['A'], desc['B'], tA, tB, al, sa, acc, scale_b=sb)
        if 'L' in (ka, kb) and ka in 'LQC' and kb in 'LQC':
            for sc in tp['line_scales']:
                for tA, tB, al in itertools.product(tp['tA'], tp['tB'], tp['alpha']):
                    check_constructed(desc['A'], desc['B'], tA, tB, al, sc, acc)
    elif desc['what'] == 'circles':
        for R in (1e2, 5e3, 5e4):   # beyond ~1e5 the two-circle formula h = sqrt(r0^2 - a^2) itself cancels
            for bs in (0.25, 1.0):
                for tA, tB, al in itertools.product((0.3, 0.6), (0.3, 0.6), (14, 60, 90)):
                    check_circles(R, bs, tA, tB, al, acc)
    elif desc['what'] == 'exact':
        check_exact(desc['B'], desc['rot'], tp['lat'], acc)
    elif desc['what'] == 'thin_arcs':
        check_thin_arcs(acc)
    elif desc['what'] == 'single_segment_paths':
        check_single_segment_paths(acc)
    elif desc['what'] == 'axis_lines':
        check_axis_lines(acc)
    elif desc['what'] == 'grid':
        isect.check_grid(desc['size'][0], desc['size'][1], desc['kinds'], desc['long'], acc, ('count',), 'C12')
    else:
        check_paths(acc)
    return acc


def expected_classes(tier):
    out = ['constructed/%s%s' % (a, b) for a in 'LQCA' for b in 'LQCA']
    out += ['exact/L/count1', 'exact/Q/count1', 'exact/Q/count2', 'exact/C/count1', 'exact/C/count2', 'exact/C/count3', 'exact/C/count0', 'circles/ratio_gt1e3', 'circles/ratio_le1e3', 'grid/lt256', 'grid/ge256', 'grid/ge4096', 'axis_lines/vertical', 'axis_lines/horizontal']
    return out


def space(tier, seed):
    tp = tier_params(tier, seed)
    return {'shapes': isect.SHAPES, 'tA': tp['tA'], 'tB': tp['tB'], 'angles': tp['alpha'], 'scales': tp['scales'],
            'lattice': '%dx%d points around each Bezier box, all ordered point pairs as lines' % (tp['lat'], tp['lat']),
            'path_pairs': [[list(a), list(b)] for a, b in PATH_PAIRS]}


def replay(case):
    acc = core.ReplayAcc()
    if case['what'] == 'thin_arc':
        check_thin_arcs(acc, only=case)
        return acc.vlist
    if case['what'] == 'single_segment_path':
        check_single_segment_paths(acc, only={k: v for k, v in case.items() if k != 'order'})
        acc.vlist = [v for v in acc.vlist if v['case'].get('order') == case.get('order')]
        return acc.vlist
    if case['what'] == 'axis_lines':
        c = {k: v for k, v in case.items() if k != 'order'}
        check_axis_lines(acc, only=c)
        acc.vlist = [v for v in acc.vlist if v['case'].get('order') == case.get('order')]
    elif case['what'] == 'grid':
        isect.check_grid(case['n_comb'], case['n_rungs'], case['kinds'], case['long_stroke'], acc, ('count',), 'C12')
        acc.vlist = [v for v in acc.vlist if v['case'].get('order') == case.get('order')]
    elif case['what'] == 'circles':
        check_circles(case['R'], case['bscale'], case['tA'], case['tB'], case['alpha'], acc)
        acc.vlist = [v for v in acc.vlist if v['case'].get('order') == case.get('order')]
    elif case['what'] == 'constructed':
        check_constructed(case['A'], case['B'], case['tA'], case['tB'], case['alpha'], case['scale'], acc, how=case.get('call', 'method'), scale_b=case.get('scale_b'))
    elif case['what'] == 'exact':
        check_exact(case['B'], case['rot'], 0, acc, only=None) if False else None
        B = AB.make(case['B'], rot=case['rot'])
        p, q = complex(*case['line'][0]), complex(*case['line'][1])
        L = Line(p, q)
        exact = isect.exact_line_bezier_count(list(B.bpoints()), p, q)
        kb = kind(B)
        for order, fn in (('L' + kb, lambda: L.intersect(B)), (kb + 'L', lambda: B.intersect(L))):
            r = outcome(fn)
            if r[0] != 'ok':
                acc.violation('intersect_raises', {'pair': order, 'exc': r[1]}, dict(case, order=order), observed=r)
            elif exact is not None and len(r[1]) != exact:
                acc.violation('wrong_number_of_crossings', {'pair': order}, dict(case, order=order), observed=len(r[1]), expected=exact)
    else:
        check_paths(acc)
        acc.vlist = [v for v in acc.vlist if v['case'].get('p1') == case['p1'] and v['case'].get('p2') == case['p2']]
    return acc.vlist
