"""C09  reversed/split/cropped trace the same curve under the documented parameter map.

Product mode: segment library x rotations x all pairs t0 < t1 of a t alphabet x a
u grid; split at every inner t; paths (open, closed by a line, closed by a
curve, with an arc) x all (T0, T1) pairs of a T alphabet including exact joints
and wrap-around.  Oracle: the pointwise parameter-map identities as stated.
"""
import itertools
import math

from mc import core
from mc import alphabets as AB
from mc.enc import outcome, seg_size

from svgpathtools import Line, QuadraticBezier, CubicBezier, Arc, Path

ID = 'C09'
LEVEL = 'exploration'
RULE = ('segment library x rotations x (t0,t1) pairs / split points x u grid; paths x (T0,T1) pairs; one case per '
        '(curve, operation, parameters); non-trivial = the operation changes the parameter range (not (0,1)); distinct = distinct tuple')
ASSUMPTIONS = ['tolerance 1e-9*size for Beziers (the maps are affine reparameterisations), 1e-7*size where an Arc is '
               're-created from end points (acos storage, see C04)']

TS = [0.0, 2.0 ** -20, 0.25, 1.0 / 3.0, 0.5, 0.7, 1.0 - 2.0 ** -20, 1.0]
US = [0.0, 0.125, 0.25, 1.0 / 3.0, 0.5, 0.625, 0.8, 0.95, 1.0]
ROTS = [0, 37]


def tol_of(seg, size):
    return (1e-7 if isinstance(seg, Arc) else 1e-9) * size


def check_segment(name, rot, acc, only=None, scale=1.0, seg=None):
    seg = AB.make(name, scale, rot=rot) if seg is None else seg
    kind = type(seg).__name__[0]
    size = seg_size(seg)
    tol = tol_of(seg, size)
    base = {'what': 'segment', 'shape': name, 'rot': rot, 'scale': scale}
    sig0 = {'kind': kind}
    # reversed
    if only in (None, 'reversed'):
        acc.case(dict(base, op='reversed'), cls='%s/reversed' % kind)
        r = outcome(lambda: seg.reversed())
        if r[0] != 'ok':
            acc.violation('raises', dict(sig0, op='reversed', exc=r[1]), dict(base, op='reversed'), observed=r)
        else:
            for u in US:
                if not abs(r[1].point(u) - seg.point(1 - u)) <= tol:
                    acc.violation('reversed_map', sig0, dict(base, op='reversed'), observed=r[1].point(u), expected=seg.point(1 - u),
                                  detail='u=%r' % u)
                    break
            if not (r[1].start == seg.end and r[1].end == seg.start):
                acc.violation('reversed_endpoints', sig0, dict(base, op='reversed'), observed=[r[1].start, r[1].end])
    # split
    for t in TS[1:-1]:
        if only not in (None, 'split'):
            break
        c = dict(base, op='split', t=t)
        acc.case(c, cls='%s/split' % kind)
        r = outcome(lambda: seg.split(t))
        if r[0] != 'ok':
            acc.violation('raises', dict(sig0, op='split', exc=r[1]), c, observed=r)
            continue
        a, b = r[1]
        joint_tol = 0 if kind != 'A' else tol
        if not (abs(a.end - b.start) <= joint_tol and abs(a.end - seg.point(t)) <= tol and
                abs(a.start - seg.start) <= joint_tol and abs(b.end - seg.end) <= joint_tol):
            acc.violation('split_joint', sig0, c, observed=[a.start, a.end, b.start, b.end], expected=seg.point(t))
            continue
        for u in US:
            if not (abs(a.point(u) - seg.point(u * t)) <= tol and abs(b.point(u) - seg.point(t + u * (1 - t))) <= tol):
                acc.violation('split_map', sig0, c, observed=[a.point(u), b.point(u)],
                              expected=[seg.point(u * t), seg.point(t + u * (1 - t))], detail='u=%r' % u)
                break
    # cropped
    for t0, t1 in itertools.combinations(TS, 2):
        if only not in (None, 'cropped'):
            break
        c = dict(base, op='cropped', t0=t0, t1=t1)
        where = 'full' if (t0, t1) == (0.0, 1.0) else ('from0' if t0 == 0 else ('to1' if t1 == 1 else 'interior'))
        acc.case(c, cls='%s/cropped/%s' % (kind, where), nontrivial=where != 'full')
        r = outcome(lambda: seg.cropped(t0, t1))
        if r[0] != 'ok':
            acc.violation('raises', dict(sig0, op='cropped', exc=r[1], where=where), c, observed=r)
            continue
        cr = r[1]
        if type(cr) is not type(seg):
            acc.violation('cropped_type', dict(sig0, where=where), c, observed=type(cr).__name__)
            continue
        for u in US:
            want = seg.point(t0 + u * (t1 - t0))
            if not abs(cr.point(u) - want) <= tol:
                acc.violation('cropped_map', dict(sig0, where=where), c, observed=cr.point(u), expected=want,
                              detail='u=%r err=%g tol=%g' % (u, abs(cr.point(u) - want), tol))
                break


INT_SEGMENTS = {'L_int': (2, 9), 'Q_int': (0, 7, 3), 'C_int': (0, 30, 60, 91), 'C_int_wiggle': (0, 50, -40, 10),
                'C_int_huge': (0, 5 * 10 ** 9, -4 * 10 ** 9, 10 ** 9), 'C_mixed': (0, 30, 60.5, 91)}


def int_segment(name):
    """control points as plain Python ints (a curve on the real axis)"""
    pts = INT_SEGMENTS[name]
    return {2: Line, 3: QuadraticBezier, 4: CubicBezier}[len(pts)](*pts)


# ---------------------------------------------------------------- operation sequences on one segment

SEQ_OPS = [('rev',)] + [('crop', a, b) for a, b in ((0.0, 0.5), (0.25, 0.75), (0.5, 1.0), (1.0 / 3.0, 0.7))] + \
          [('split0', t) for t in (0.25, 0.5, 0.7)] + [('split1', t) for t in (0.25, 0.5, 0.7)] + \
          [('translate', 3 - 2j), ('rotate', 40.0, 1 - 1j), ('scale', 1.5), ('via_d',)]
# the last four re-create the segment from its public attributes (end points, radii, flags ...): a piece
# whose flags went stale in an earlier step traces the right curve until one of these rebuilds it


def apply_op(seg, a, b, op, al=1 + 0j, be=0j):
    """the real operation on the real segment, and the documented map composed onto
    cur(u) = al * orig(a + b*u) + be   (al, be: the similarity accumulated by translate / rotate / scale)"""
    if op[0] == 'rev':
        return seg.reversed(), a + b, -b, al, be
    if op[0] == 'crop':
        return seg.cropped(op[1], op[2]), a + b * op[1], b * (op[2] - op[1]), al, be
    if op[0] == 'split0':
        return seg.split(op[1])[0], a, b * op[1], al, be
    if op[0] == 'split1':
        return seg.split(op[1])[1], a + b * op[1], b * (1 - op[1]), al, be
    if op[0] == 'translate':
        return seg.translated(op[1]), a, b, al, be + op[1]
    if op[0] == 'rotate':
        w = complex(math.cos(math.radians(op[1])), math.sin(math.radians(op[1])))
        return seg.rotated(op[1], origin=op[2]), a, b, w * al, w * (be - op[2]) + op[2]
    if op[0] == 'scale':
        return seg.scaled(op[1]), a, b, op[1] * al, op[1] * be
    if op[0] == 'via_d':
        from svgpathtools import parse_path
        out = parse_path(Path(seg).d())
        if len(out) != 1:
            raise AssertionError('d() of a single segment parsed to %d segments' % len(out))
        return out[0], a, b, al, be
    raise ValueError(op)


def check_sequences(name, rot, depth, acc, only=None):
    """every sequence of up to `depth` operations (reverse, crop, first/second half of a split) applied
    one after another starting from a library segment: the result must trace orig(a + b*u) for the
    composed map - states reached through other operations are the inputs here, not only fresh segments"""
    orig = AB.make(name, 1.0, rot=rot)
    kind = type(orig).__name__[0]
    size = seg_size(orig)
    tol = tol_of(orig, size)
    frontier = [((), orig, 0.0, 1.0, 1 + 0j, 0j)]
    for d in range(1, depth + 1):
        nxt = []
        for hist, seg, a, b, al, be in frontier:
            for oi, op in enumerate(SEQ_OPS):
                h = hist + (oi,)
                if only is not None and tuple(only[:len(h)]) != h:
                    continue
                c = {'what': 'sequence', 'shape': name, 'rot': rot, 'ops': list(h)}
                acc.case(c, cls='%s/sequence/depth%d' % (kind, d))
                acc.transitions += 1
                sig = {'kind': kind, 'last_op': op[0], 'previous_op': SEQ_OPS[hist[-1]][0] if hist else None}
                if hist and op[0] in ('translate', 'rotate', 'scale', 'via_d') and SEQ_OPS[hist[-1]][0] in ('translate', 'rotate', 'scale', 'via_d'):
                    continue        # two rebuilding steps in a row add nothing (C10 decides transforms of fresh objects)
                r = outcome(lambda: apply_op(seg, a, b, op, al, be))
                if r[0] != 'ok':
                    acc.violation('raises', dict(sig, exc=r[1]), c, observed=r)
                    continue
                cur, a2, b2, al2, be2 = r[1]
                if type(cur) is not type(orig):
                    acc.violation('sequence_type', sig, c, observed=type(cur).__name__)
                    continue
                bad = None
                for u in US:
                    want = al2 * orig.point(min(max(a2 + b2 * u, 0.0), 1.0)) + be2
                    if not abs(cur.point(u) - want) <= tol * d * max(1.0, abs(al2)):
                        bad = (u, cur.point(u), want)
                        break
                if bad:
                    acc.violation('sequence_map', sig, c, observed=bad[1], expected=bad[2],
                                  detail='u=%r composed map a=%r b=%r' % (bad[0], a2, b2))
                    continue
                nxt.append((h, cur, a2, b2, al2, be2))
        frontier = nxt
        acc.states += len(nxt)


# ---------------------------------------------------------------- paths

def chain(names, close_with=None):
    segs = []
    pen = 0j
    for n in names:
        s0 = AB.make(n)
        s = AB.make(n, shift=pen - s0.start)
        if isinstance(s, Arc):
            s = Arc(pen, s.radius, s.rotation, s.large_arc, s.sweep, s.end)
        else:
            s.start = pen
        segs.append(s)
        pen = s.end
    if close_with == 'L':
        segs.append(Line(pen, segs[0].start))
    elif close_with == 'C':
        a = segs[0].start
        segs.append(CubicBezier(pen, pen + (2 - 3j), a + (-3 - 2j), a))
    elif close_with == 'Q':
        a = segs[0].start
        segs.append(QuadraticBezier(pen, (pen + a) / 2 + (1 - 4j), a))
    return segs


PATHS = {
    'open_LQC': (('L_diagonal', 'Q_generic', 'C_arch'), None),
    'open_CA': (('C_sshape', 'A_ellipse_3to1'), None),
    'closed_by_line': (('C_arch', 'Q_generic'), 'L'),
    'closed_by_cubic': (('L_diagonal', 'L_vertical'), 'C'),
    'closed_by_quad': (('L_horizontal', 'C_monotone'), 'Q'),
    'closed_with_arc': (('L_diagonal', 'A_circle_small_ccw'), 'L'),
    'single_cubic': (('C_loop',), None),
}


def _retrace():
    a, b = 0j, 3 + 1j
    return [Line(a, b), Line(b, a), Line(a, b)]


def _retrace_curves():
    c = CubicBezier(0j, 1 + 2j, 3 + 2j, 4 + 0j)
    return [c, c.reversed(), CubicBezier(0j, 1 + 2j, 3 + 2j, 4 + 0j), Line(4 + 0j, 0j), CubicBezier(0j, 1 + 2j, 3 + 2j, 4 + 0j)]


def _closed_by_setter():
    """an open path that has already answered isclosed() / length(), then closed through Path.end = Path.start"""
    segs = chain(('L_diagonal', 'Q_generic', 'C_arch'), None)
    segs.append(Line(segs[-1].end, segs[0].start + (0.5 - 0.25j)))
    p = Path(*segs)
    _ = (p.isclosed(), p.iscontinuous(), p.length(), p.start, p.end)
    p.end = p.start
    return p


# paths that contain EQUAL segments (they retrace themselves): anything that looks a segment up by value goes wrong here
def _two_subpaths():
    a = chain(('L_diagonal', 'Q_generic'), None)
    b = [Line(20 + 3j, 24 + 6j), CubicBezier(24 + 6j, 25 + 9j, 28 + 9j, 29 + 5j)]
    return a + b


RAW = {'raw_retrace_lines': (_retrace, 'equal_segments'), 'raw_retrace_curves': (_retrace_curves, 'equal_segments'),
       'raw_two_subpaths': (_two_subpaths, 'two_subpaths'), 'raw_closed_by_end_setter': (_closed_by_setter, 'closed_by_setter')}


def path_T_alphabet(p):
    ls = [s.length() for s in p]
    tot = sum(ls)
    b = []
    acc_ = 0.0
    for l in ls[:-1]:
        acc_ += l / tot
        b.append(acc_)
    near = [x for j in b for x in (j - 1e-6, j - 3e-9, j + 3e-9)] + [3e-9, 1 - 3e-9]
    return sorted(set([0.0, 1.0, 0.1, 0.37, 0.5, 0.77, 0.9] + b + near))


POOL4 = ['L_diagonal', 'Q_generic', 'C_arch', 'A_ellipse_3to1']


def all_paths(tier):
    out = dict(PATHS)
    n = 4 if tier == 'thorough' else 3
    for L in range(1, n + 1):
        for w in itertools.product(range(4), repeat=L):
            for close in (None, 'L', 'C'):
                if L == 1 and close is None:
                    continue
                out['w%s_%s' % (''.join(map(str, w)), close)] = (tuple(POOL4[i] for i in w), close)
    return out


def check_path(pname, acc, only=None, scale=1.0):
    if pname in RAW:
        segs, close = RAW[pname][0](), ('setter' if RAW[pname][1] == 'closed_by_setter' else None)
    else:
        names, close = all_paths('thorough')[pname]
        segs = chain(names, close)
        if scale != 1.0:
            # the same drawing at another scale (joints made exact again after the multiplication)
            segs = [AB.rescaled_segment(s_, scale) for s_ in segs]
            for i_ in range(1, len(segs)):
                if isinstance(segs[i_], Arc):
                    segs[i_] = Arc(segs[i_ - 1].end, segs[i_].radius, segs[i_].rotation, segs[i_].large_arc, segs[i_].sweep, segs[i_].end)
                else:
                    segs[i_].start = segs[i_ - 1].end
            if close is not None:
                segs[-1].end = segs[0].start
            acc.seen('drawing_scale:%g' % scale)
    p = segs if isinstance(segs, Path) else AB.derive_path(Path(*segs))
    segs = list(p)
    size = max(seg_size(s) for s in segs) * len(segs)
    has_arc = any(isinstance(s, Arc) for s in segs)
    tol = (1e-7 if has_arc else 1e-9) * size
    closed = close is not None
    base = {'what': 'path', 'path': pname}
    if scale != 1.0:
        base['scale'] = scale
    sig0 = {'closed': closed, 'has_arc': has_arc}
    if pname in RAW:
        sig0[RAW[pname][1]] = True
    Ts = path_T_alphabet(p)
    ls_ = [s_.length() for s_ in p]
    joints = [sum(ls_[:i + 1]) / sum(ls_) for i in range(len(ls_) - 1)]
    gaps = [(joints[i], p[i].end, p[i + 1].start) for i in range(len(p) - 1) if p[i].end != p[i + 1].start]

    def at(T):
        """the point(s) of the path at T: where the path jumps (a gap between sub-paths) the parameter of the
        joint belongs to both sides"""
        out_ = [p.point(T)]
        for jT, a_, b_ in gaps:
            if abs(T - jT) <= 4e-9:
                out_ += [a_, b_]
        return out_
    if only in (None, 'reversed'):
        acc.case(dict(base, op='reversed'), cls='path/reversed')
        r = outcome(lambda: p.reversed())
        if r[0] != 'ok':
            acc.violation('raises', dict(sig0, op='reversed'), dict(base, op='reversed'), observed=r)
        else:
            rp = r[1]
            if not abs(rp.length() - p.length()) <= 1e-9 * p.length():
                acc.violation('path_reversed_length', sig0, dict(base, op='reversed'), observed=rp.length(), expected=p.length())
            n = len(p)
            for k in range(n):
                for u in US:
                    if not abs(rp[n - 1 - k].point(1 - u) - p[k].point(u)) <= tol:
                        acc.violation('path_reversed_points', sig0, dict(base, op='reversed'), observed=rp[n - 1 - k].point(1 - u),
                                      expected=p[k].point(u))
                        break
            for T in Ts:
                if not min(abs(rp.point(1 - T) - w_) for w_ in at(T)) <= 1e-6 * size:
                    acc.violation('path_reversed_T', sig0, dict(base, op='reversed', T=T), observed=rp.point(1 - T), expected=p.point(T))
                    break
    if only not in (None, 'cropped'):
        return
    for T0, T1 in itertools.permutations(Ts, 2):
        wrap = T1 < T0
        c = dict(base, op='cropped', T0=T0, T1=T1)
        if wrap and not closed:
            continue
        if T0 == 1 and T1 == 0:
            continue
        atjoint = any(abs(T - b_) < 1e-15 for T in (T0, T1) for b_ in joints)
        nearjoint = (not atjoint) and any(abs(T - b_) < 2e-6 for T in (T0, T1) for b_ in joints + [0.0, 1.0] if T not in (0.0, 1.0))
        tiny = abs(T1 - T0) < 1e-5
        cls = 'path/cropped/%s/%s' % ('wrap' if wrap else 'plain', 'joint' if atjoint else 'inside')
        acc.case(c, cls=cls)
        sig = dict(sig0, wrap=wrap, at_joint=atjoint, near_joint=nearjoint, tiny_window=tiny)
        r = outcome(lambda: p.cropped(T0, T1))
        if r[0] != 'ok':
            acc.violation('raises', dict(sig, op='cropped', exc=r[1]), c, observed=r)
            continue
        cp = r[1]
        if len(cp) == 0:
            acc.violation('path_cropped_empty', sig, c)
            continue
        # an end within 1e-8 (in t) of a joint is snapped onto the joint by design
        etol = max(tol, 2e-8 * size)
        if not (min(abs(cp[0].start - w_) for w_ in at(T0)) <= etol and min(abs(cp[-1].end - w_) for w_ in at(T1)) <= etol):
            acc.violation('path_cropped_endpoints', sig, c, observed=[cp[0].start, cp[-1].end], expected=[p.point(T0), p.point(T1)])
            continue
        jt = 0 if not has_arc else tol
        ngaps = sum(1 for i in range(len(p) - 1) if p[i].end != p[i + 1].start)
        if sum(1 for i in range(len(cp) - 1) if not abs(cp[i].end - cp[i + 1].start) <= jt) > ngaps:
            acc.violation('path_cropped_pieces_not_joined', sig, c,
                          observed=[[cp[i].end, cp[i + 1].start] for i in range(len(cp) - 1)])
            continue
        if any(isinstance(s, Line) and s.start == s.end for s in cp):
            acc.violation('path_cropped_zero_length_piece', sig, c)
        rl = outcome(lambda: p.length(T0, T1) if not wrap else p.length(T0, 1) + (p.length(0, T1) if T1 > 0 else 0.0))
        if rl[0] != 'ok':
            acc.violation('path_length_T0_T1_raises', dict(sig, exc=rl[1]), c, observed=rl)
            continue
        want = rl[1]
        got = cp.length()
        # next to a joint each end may have been snapped by up to 1e-8 in t (by design)
        if not abs(got - want) <= 1e-6 * max(want, 1e-300) + (4e-8 if (nearjoint or atjoint) else 1e-9) * size:
            acc.violation('path_cropped_length', sig, c, observed=got, expected=want)


def shards(tier, seed):
    out = [{'what': 'segment', 'shape': n, 'rot': r, 'scale': sc} for n in (list(AB.LINES) + list(AB.QUADS) + list(AB.CUBICS) + list(AB.ARCS))
           for r in (ROTS + [90] if tier == 'quick' else ROTS + [90, 211, 180]) for sc in ([1.0, 1e-3] if tier == 'quick' else [1.0, 1e-3, 1e3, 1e6])]
    out += [{'what': 'path', 'path': n} for n in list(all_paths(tier)) + list(RAW)]
    out += [{'what': 'int_segment', 'shape': n} for n in INT_SEGMENTS]
    # the named paths as tiny / huge drawings
    out += [{'what': 'path', 'path': n, 'scale': sc} for n in PATHS for sc in (1e-12, 1e-9, 1e9)]
    out += AB.provenance_shards(out, tier, lambda d: d['what'] == 'path' and d['path'] not in RAW, key='pprov')
    out += AB.provenance_shards(out, tier, lambda d: d['what'] == 'segment' and d.get('scale', 1.0) == 1.0 or (d['what'] == 'sequence' and d['rot'] == 0 and tier == 'quick'))
    # arcs with the documented module switch USE_SCIPY_QUAD off, and arcs constructed with autoscale_radius=False
    out += [{'what': 'segment', 'shape': n, 'rot': r, 'scale': 1.0, 'module': {'USE_SCIPY_QUAD': False}} for n in AB.ARCS for r in (0, 37)]
    out += [{'what': 'path', 'path': n, 'module': {'USE_SCIPY_QUAD': False}} for n in all_paths(tier) if any(x.startswith('A_') for x in all_paths(tier)[n][0])]
    out += [d for d in ({'what': 'segment', 'shape': n, 'rot': r, 'scale': 1.0, 'prov': 'strict_arc'} for n in AB.ARCS for r in (0, 37)) if d not in out]
    out += [{'what': 'sequence', 'shape': n, 'rot': r, 'depth': 2 if tier == 'quick' else 4}
            for n in (list(AB.LINES) + list(AB.QUADS) + list(AB.CUBICS) + list(AB.ARCS)) for r in ([0] if tier == 'quick' else [0, 37, 211])]
    return out


def run_shard(desc, tier, seed):
    acc = core.Acc()
    if desc['what'] == 'segment':
        check_segment(desc['shape'], desc['rot'], acc, scale=desc.get('scale', 1.0))
    elif desc['what'] == 'int_segment':
        check_segment('int:' + desc['shape'], 0, acc, seg=int_segment(desc['shape']))
        acc.seen('int_control_points')
    elif desc['what'] == 'sequence':
        check_sequences(desc['shape'], desc['rot'], desc['depth'], acc)
    else:
        check_path(desc['path'], acc, scale=desc.get('scale', 1.0))
    return acc


def expected_classes(tier):
    out = ['path/reversed', 'path/cropped/wrap/inside', 'path/cropped/plain/joint', 'path/cropped/plain/inside', 'path/cropped/wrap/joint']
    out += ['int_control_points']
    for k in 'LQCA':
        out += ['%s/sequence/depth2' % k]
        out += ['%s/reversed' % k, '%s/split' % k, '%s/cropped/interior' % k, '%s/cropped/from0' % k, '%s/cropped/to1' % k]
    return out


def space(tier, seed):
    return {'shapes': list(AB.LINES) + list(AB.QUADS) + list(AB.CUBICS) + list(AB.ARCS), 'rotations': ROTS, 't_alphabet': TS,
            'u_grid': US, 'paths': {k: list(v[0]) + [v[1]] for k, v in all_paths(tier).items()},
            'operation_sequences': {'ops': [list(o) for o in SEQ_OPS], 'depth': 2 if tier == 'quick' else 4,
                                    'oracle': 'composed affine parameter map against the original segment'},
            'path_T_alphabet': '0, 1, 0.1, 0.37, 0.5, 0.77, 0.9 and every exact joint value; all ordered pairs (T1 < T0 for closed paths)'}


def replay(case):
    acc = core.ReplayAcc()
    if case['what'] == 'sequence':
        check_sequences(case['shape'], case['rot'], len(case['ops']), acc, only=case['ops'])
        acc.vlist = [v for v in acc.vlist if v['case']['ops'] == case['ops']]
    elif case['what'] == 'segment':
        check_segment(case['shape'], case['rot'], acc, only=case['op'], scale=case.get('scale', 1.0),
                      seg=int_segment(case['shape'][4:]) if str(case['shape']).startswith('int:') else None)
        keys = [k for k in ('t', 't0', 't1') if k in case]
        acc.vlist = [v for v in acc.vlist if all(v['case'].get(k) == case[k] for k in keys)]
    else:
        check_path(case['path'], acc, only=case['op'], scale=case.get('scale', 1.0))
        keys = [k for k in ('T0', 'T1', 'T') if k in case]
        acc.vlist = [v for v in acc.vlist if all(v['case'].get(k) == case[k] for k in keys)]
    return acc.vlist
