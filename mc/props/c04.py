"""C04  Arc realises the SVG endpoint parameterisation (F.6.5) for all parameters.

Product mode: chord directions x chord lengths x radius pool (relative to the
half chord: far too small, exactly fitting and its float neighbourhood,
generous, eccentric, negative-signed) x rotation pool x the four flag pairs;
for each arc a t grid and derivative orders 1..5.  Reference: independent
implementation of W3C F.6.5/F.6.6 (mc/refgeom.py, math only).
"""
import itertools
import math

import numpy as np

from mc import core, refgeom
from mc.enc import outcome

from svgpathtools import Arc, CubicBezier, QuadraticBezier

ID = 'C04'
LEVEL = 'exploration'
RULE = ('chord direction x length x radius pool x rotation pool x flags; one case per arc (each checked on a t grid and '
        'derivative orders 1..5); non-trivial = every arc; distinct = distinct constructor arguments')
ASSUMPTIONS = ['mc/refgeom.arc_center_params is the reading of F.6.5/F.6.6',
               'end-point tolerance 1e-12*size (worst measured on the repaired tree, angles via atan2: 3.5e-15*size; before that repair acos limited it to ~1e-8)',
               'grid only; no all-inputs claim (trigonometric code)']

DIRS = [0, 45, 90, 135, 180, 225, 270, 315, 17, 200]
DISTS = [2.0, 37.5, 2.0e-9, 3.0e9]
# thorough tier: finer directions, more chord lengths (incl. tiny / huge), more rotations, far-away start points
DIRS_T = sorted(set(DIRS + list(range(0, 360, 15)) + [1, 89.999, 90.001, 179.5, 271, 359.9]))
DISTS_T = [2.0, 37.5, 1e-3, 0.7, 4.0e4, 2.0e-9, 3.0e9]
ROTS_T = [0, 90, 180, 270, 30, -45, 123.4, 400, -725, 1e-3, 89.99, 45, 60, -90, 360, 179.999]
STARTS_T = [1.25 - 0.5j, 0j, -3.0e5 + 2.0e5j]
RADII = [(0.3, 0.3), (1.0, 1.0), (1.0 + 1e-12, 1.0 + 1e-12), (1.0 - 1e-12, 1.0), (1.0 + 1e-7, 1.0 + 1e-7),
         (1.0 + 1e-4, 1.0 + 1e-4), (1.5, 1.5), (10.0, 10.0), (3.0, 1.0), (1.0, 3.0), (100.0, 1.0), (-2.0, -1.5), (1.5, 0.4),
         (1e-80, 2e-80), (1e-140, 1e-140), (1e-9, 1e-9),
         # too small by a few millionths: still too small (the ellipse must be enlarged, the centre is the chord's midpoint)
         (1.0 - 1e-6, 1.0 - 1e-6), (1.0 - 3e-6, 1.0), (1.0 - 1e-4, 1.0 - 1e-4), (1.0 - 1e-8, 1.0 - 1e-8)]
ROTS = [0, 90, 180, 270, 30, -45, 123.4, 400, -725, 3.6e12 + 25.0]     # the last: ten thousand million turns and 25 degrees
FLAGS = [(0, 0), (0, 1), (1, 0), (1, 1)]
TS = [0.0, 2.0 ** -52, 0.125, 0.25, 1.0 / 3.0, 0.5, 0.7, 0.875, 1.0 - 2.0 ** -53, 1.0]


def grid(tier):
    if tier != 'thorough':
        for d, dist, r, rot, fl in itertools.product(DIRS[:8], DISTS, RADII, ROTS, FLAGS):
            yield d, dist, r, rot, fl
        return
    for d, dist, r, rot, fl in itertools.product(DIRS_T, DISTS_T, RADII, ROTS_T, FLAGS):
        yield d, dist, r, rot, fl
    # far-away / origin start points on the quick-tier alphabet
    for si in (1, 2):
        # (ordinary chord lengths only: a 2e-9 chord 3.6e5 units from the origin is a few float spacings long)
        for d, dist, r, rot, fl in itertools.product(DIRS, DISTS[:2], RADII, ROTS, FLAGS):
            yield d, dist, r, rot, fl, si


def spec_of(g):
    d, dist, r, rot, fl = g[:5]
    start = STARTS_T[g[5]] if len(g) > 5 else 1.25 - 0.5j
    if dist < 1e-6 and len(g) <= 5:
        start = start * dist        # a tiny drawing near the origin (not a tiny feature of an ordinary one)
    end = start + dist * complex(math.cos(math.radians(d)), math.sin(math.radians(d)))
    if d % 90 == 0:
        end = start + dist * [1, 1j, -1, -1j][(d // 90) % 4]
    h = dist / 2.0
    return (start, complex(r[0] * h, r[1] * h), rot, fl[0], fl[1], end)


def arc_from_center(rx, ry, phi, th1, dth, center=1.5 - 0.5j):
    c, s = math.cos(math.radians(phi)), math.sin(math.radians(phi))

    def pt(a):
        x, y = rx * math.cos(math.radians(a)), ry * math.sin(math.radians(a))
        return complex(c * x - s * y, s * x + c * y) + center
    return (pt(th1), complex(rx, ry), phi, abs(dth) > 180, dth > 0, pt(th1 + dth))


def center_grid(tier):
    radii = [(2.0, 2.0), (3.0, 1.0), (100.0, 1.0), (0.05, 0.02)]
    phis = [0, 90, 30, -45, 123.4, 400, -725]
    th1s = [10.0, 100.0, 200.0, -30.0, 0.0, 90.0]
    spans = [40.0, 130.0, 200.0, 300.0, 350.0, 90.0, 180.0 - 1e-1, 180.0 - 1e-2, 180.0 - 1e-3, 180.0 - 1e-5, 180.0 + 1e-3, 180.0 + 1e-2, 180.0 + 1e-1,
             359.0, 1.0, 1e-3]
    if tier == 'thorough':
        radii += [(1.0, 1.0), (1.0, 1.0 + 1e-9), (2.5e4, 1.0e4), (1e-4, 3e-4)]
        phis += [1e-3, 45, 60, 89.99, 179.999]
        th1s += [45.0, 180.0, 270.0, 359.5, -179.0, 1e-3]
        spans += [1e-6, 10.0, 89.9999, 90.0001, 179.0, 181.0, 270.0, 359.99, 359.9999]
    for (rx, ry), phi, th1, sp, sgn in itertools.product(radii, phis, th1s, spans, (1, -1)):
        yield ('center', rx, ry, phi, th1, sgn * sp)


def near_grid(tier):
    """start and end distinct but extremely close compared with the radii"""
    for delta in ((1e-6, 1e-8, 1e-10) if tier != 'thorough' else (1e-5, 1e-6, 1e-7, 1e-8, 1e-9, 1e-10)):
        for ang in ((0.0, 70.0, 200.0) if tier != 'thorough' else (0.0, 70.0, 200.0, 90.0, 135.0, 300.0)):
            for radius in ((3.0, 1.0), (2.0, 2.0)):
                for rot in (0, 10, 90):
                    for fl in FLAGS:
                        yield ('near', delta, ang, radius, rot, fl)


def near_spec(g):
    _, delta, ang, radius, rot, fl = g
    start = 1 + 1j
    end = start + delta * complex(math.cos(math.radians(ang)), math.sin(math.radians(ang)))
    return (start, complex(*radius), rot, fl[0], fl[1], end)


COLLIDE_FIELDS = ['start.real', 'start.imag', 'end.real', 'end.imag', 'rotation', 'radius.real', 'radius.imag']


def collide_grid(tier):
    """pairs of arcs that differ in ONE number, -1 in the first and -2 in the second: hash(-1) == hash(-2)
    in CPython (also for floats and complex parts), so anything memoised per hash of the parameters
    hands the second arc the first one's centre"""
    for field in COLLIDE_FIELDS:
        for fl in FLAGS:
            for variant in (0, 1):
                yield ('collide', field, fl, variant)


def collide_specs(g):
    _, field, fl, variant = g
    base = {'start': 0.5 + 0.25j, 'radius': 3.0 + 2.0j, 'rotation': 20.0, 'end': 3.0 - 1.5j} if variant == 0 else \
           {'start': -4.0 + 1.0j, 'radius': 1.0 + 5.0j, 'rotation': 0.0, 'end': 0.0 + 3.0j}
    out = []
    for v in (-1.0, -2.0):
        d = dict(base)
        name, _, part = field.partition('.')
        if not part:
            d[name] = v
        else:
            z = d[name]
            d[name] = complex(v, z.imag) if part == 'real' else complex(z.real, v)
        out.append((d['start'], d['radius'], d['rotation'], fl[0], fl[1], d['end']))
    return out


def unwrap(angles):
    out = [angles[0]]
    for a in angles[1:]:
        d = a - out[-1]
        while d > 180:
            d -= 360
        while d < -180:
            d += 360
        out.append(out[-1] + d)
    return out


def check_arc(g, acc):
    if g[0] == 'collide':
        first, spec = collide_specs(g)
        a0 = outcome(lambda: Arc(*first))
        if a0[0] == 'ok':
            outcome(lambda: (a0[1].point(0.3), a0[1].length(), a0[1].bbox(), a0[1].derivative(0.5)))
        case = {'grid': [g[0], g[1], list(g[2]), g[3]]}
    elif g[0] == 'near':
        spec = near_spec(g)
        case = {'grid': [g[0], g[1], g[2], list(g[3]), g[4], list(g[5])]}
    elif g[0] == 'center':
        spec = arc_from_center(*g[1:])
        case = {'grid': list(g)}
    else:
        spec = spec_of(g)
        case = {'grid': [g[0], g[1], list(g[2]), g[3], list(g[4])] + list(g[5:])}
    start, radius, rot, la, sw, end = spec
    ref = refgeom.arc_center_params(*spec)
    lam = ref['lambda']
    region = 'too_small' if lam > 1 + 1e-9 else ('fits' if lam < 1 - 1e-9 else 'exact_fit')
    acc.case(case, cls='%s/la%d/sw%d/%s' % (region, la, sw, 'axis' if rot % 90 == 0 else 'rotated'))
    if g[0] == 'collide':
        acc.seen('after_an_arc_with_colliding_hash')
    sig = {'region': region, 'large_arc': bool(la), 'sweep': bool(sw), 'rotated': rot % 90 != 0}
    if g[0] == 'collide':
        sig['after_colliding_arc'] = g[1]
    r = outcome(lambda: Arc(*spec))
    if r[0] != 'ok':
        acc.violation('constructor_raises', dict(sig, exc=r[1]), case, observed=r)
        return
    a = r[1]
    size = abs(start - end) + ref['rx'] + ref['ry']
    # radii: minimal enlargement or unchanged
    rx0, ry0 = abs(radius.real), abs(radius.imag)
    if region == 'fits':
        if not (a.radius.real == rx0 and a.radius.imag == ry0):
            acc.violation('radii_changed_although_an_ellipse_fits', sig, case, observed=a.radius, expected=[rx0, ry0])
    elif region == 'too_small':
        f = math.sqrt(lam)
        if not (abs(a.radius.real - rx0 * f) <= 1e-9 * rx0 * f and abs(a.radius.imag - ry0 * f) <= 1e-9 * ry0 * f):
            acc.violation('radii_not_minimally_enlarged', sig, case, observed=a.radius, expected=[rx0 * f, ry0 * f])
    else:
        if not (abs(a.radius.real - rx0) <= 1e-8 * rx0 and abs(a.radius.imag - ry0) <= 1e-8 * ry0):
            acc.violation('radii_off_at_exact_fit', sig, case, observed=a.radius, expected=[rx0, ry0])
    # end points
    p0, p1 = a.point(0), a.point(1)
    # far from the origin a coordinate cannot be resolved better than its own spacing: 4 ulp of the position
    etol = 1e-12 * size + 4 * 2.0 ** -52 * max(abs(start), abs(end))
    if not (abs(p0 - start) <= etol and abs(p1 - end) <= etol):
        acc.violation('endpoints_off', sig, case, observed=[p0, p1], expected=[start, end],
                      detail='errors %g %g (size %g)' % (abs(p0 - start), abs(p1 - end), size))
    # centre against the reference (the two candidate centres are a chord-mirror apart, so a loose
    # tolerance still decides which one was taken)
    ctol = 1e-5 * size if region != 'exact_fit' else 1e-3 * size
    if not abs(a.center - ref['center']) <= ctol:
        acc.violation('centre_differs_from_F65', sig, case, observed=a.center, expected=ref['center'])
    # every point on the stored ellipse; eccentric angle monotone in the sweep direction
    par = {'rx': a.radius.real, 'ry': a.radius.imag, 'phi': math.radians(a.rotation), 'center': a.center}
    angs = []
    for t in TS:
        z = a.point(t)
        if not abs(refgeom.ellipse_residual(par, z)) <= 1e-9:
            acc.violation('point_not_on_stored_ellipse', sig, dict(case, t=t), observed=z,
                          detail='residual %g' % refgeom.ellipse_residual(par, z))
            break
        angs.append(refgeom.eccentric_angle(par, z))
    else:
        u = unwrap(angs)
        steps = [b - c for c, b in zip(u, u[1:])]
        total = u[-1] - u[0]
        direction_ok = all((s_ >= -1e-7) for s_ in steps) if sw else all((s_ <= 1e-7) for s_ in steps)
        if not direction_ok or (total > 0) != bool(sw):
            acc.violation('sweep_direction', sig, case, observed=u, expected='increasing' if sw else 'decreasing')
        # the unwrapped total only sees the span modulo small steps: TS has gaps < 180 degrees of
        # sweep only if |delta| < 360*0.3; use stored delta for the span and the samples for its sign
        span = abs(a.delta)
        if abs(abs(total) - span) > 1e-4 and span < 359.99:
            acc.violation('span_inconsistent_with_points', sig, case, observed={'delta': a.delta, 'from_points': total})
        if region == 'exact_fit' or abs(span - 180) < 1e-3:
            pass        # both arcs are half ellipses: either is acceptable
        elif (span > 180) != bool(la):
            acc.violation('large_arc_flag', sig, case, observed=a.delta, expected='|delta| > 180 iff large_arc')
        # reference span
        if region != 'exact_fit' and abs(abs(ref['dtheta']) - 180) > 1e-3 and not abs(a.delta - ref['dtheta']) <= 1e-4:
            acc.violation('delta_differs_from_F65', sig, case, observed=a.delta, expected=ref['dtheta'])
    # derivatives: analytic n-th derivative of the stored parameterisation, and central differences of point
    k = math.radians(a.delta)
    for t in (0.0, 0.3, 0.5, 1.0):
        ang = math.radians(a.theta + t * a.delta)
        for n in range(1, 6):
            c, s = math.cos(par['phi']), math.sin(par['phi'])
            x = par['rx'] * math.cos(ang + n * math.pi / 2)
            y = par['ry'] * math.sin(ang + n * math.pi / 2)
            want = (k ** n) * complex(c * x - s * y, s * x + c * y)
            got = outcome(lambda: a.derivative(t, n))
            tol = 1e-9 * size * max(1.0, abs(k) ** n)
            if got[0] != 'ok' or not abs(got[1] - want) <= tol:
                acc.violation('derivative_wrong', dict(sig, order=n if n <= 4 else '5+'), dict(case, t=t, n=n),
                              observed=got, expected=want)
                break
        if 0 < t < 1:
            h = 1e-5
            fd = (a.point(t + h) - a.point(t - h)) / (2 * h)
            if not abs(fd - a.derivative(t, 1)) <= 1e-6 * size * max(1.0, abs(k) ** 3):
                acc.violation('derivative_not_derivative_of_point', sig, dict(case, t=t), observed=a.derivative(t, 1), expected=fd)
    # the parameter as an ndarray: point and every derivative order element-wise equal to the scalar answers
    tarr = np.array(TS, dtype=float)
    for n_ in (0, 1, 2, 3):
        rv = outcome(lambda: np.asarray(a.point(tarr) if n_ == 0 else a.derivative(tarr, n_)) + np.zeros(len(TS)))
        want_v = [a.point(t) if n_ == 0 else a.derivative(t, n_) for t in TS]
        if rv[0] != 'ok' or len(rv[1]) != len(TS) or not all(abs(complex(x) - complex(y)) <= 1e-12 * size * max(1.0, abs(math.radians(a.delta))) ** n_ for x, y in zip(rv[1], want_v)):
            acc.violation('vector_parameter_differs_from_scalar', dict(sig, order=n_), dict(case, n=n_), observed=repr(rv)[:200], expected=repr(want_v)[:200])
            break
    check_strict(spec, a, region, sig, case, acc)
    # approximations
    for fn, cls in (('as_cubic_curves', CubicBezier), ('as_quad_curves', QuadraticBezier)):
        for n in (1, 2, 3, 4):
            rr = outcome(lambda: list(getattr(a, fn)(n)))
            ok = rr[0] == 'ok' and len(rr[1]) == n and all(isinstance(s_, cls) for s_ in rr[1]) and \
                rr[1][0].start == a.start and rr[1][-1].end == a.end and \
                all(rr[1][i].end == rr[1][i + 1].start for i in range(n - 1))
            if ok and n >= 2:
                # interior joints lie on the arc
                for i in range(n - 1):
                    if abs(rr[1][i].end - a.point((i + 1) / n)) > 1e-6 * size:
                        ok = False
            if not ok:
                acc.violation('approximation_endpoints', dict(sig, fn=fn), dict(case, n=n), observed=rr[0], expected='starts/ends at arc end points, contiguous')
                break


def check_strict(spec, a, region, sig, case, acc, exact_fit_is_exact=False):
    """the same six values with autoscale_radius=False (by keyword and by position), also with the sign of one radius
    component flipped (radii are taken in absolute value, F.6.6 step 1): when an ellipse fits it is the same arc,
    when none fits the constructor refuses (ValueError) instead of enlarging; at an exact fit in floating point
    either answer is acceptable unless the fit is exact in exact arithmetic (dyadic family)"""
    start, radius, rot, la, sw, end = spec
    forms = [('keyword', lambda r_: Arc(start, r_, rot, la, sw, end, autoscale_radius=False)),
             ('positional', lambda r_: Arc(start, r_, rot, la, sw, end, False)),
             ('keyword_true', lambda r_: Arc(start, r_, rot, la, sw, end, autoscale_radius=True))]
    for how, mk in forms:
        for rname, r_ in (('as_given', radius), ('rx_negated', complex(-radius.real, radius.imag)), ('ry_negated', complex(radius.real, -radius.imag))):
            if rname != 'as_given' and (radius.real == 0 or radius.imag == 0):
                continue
            acc.evaluations += 1
            rr = outcome(lambda: mk(r_))
            ssig = dict(sig, autoscale_radius=(how == 'keyword_true'), given=how, radius=rname)
            scase = dict(case, strict=[how, rname])
            if how == 'keyword_true' or region == 'fits' or (region == 'exact_fit' and exact_fit_is_exact):
                if rr[0] != 'ok':
                    acc.violation('strict_arc_refused_although_an_ellipse_fits' if how != 'keyword_true' else 'constructor_raises', dict(ssig, exc=rr[1]), scase, observed=rr)
                    continue
                b = rr[1]
                tol = 1e-9 * (abs(start - end) + abs(a.radius))
                same = abs(b.center - a.center) <= tol and abs(b.radius - a.radius) <= tol and abs(b.theta - a.theta) <= 1e-7 and \
                    abs(b.delta - a.delta) <= 1e-7 and abs(b.point(0.3) - a.point(0.3)) <= tol and b.radius.real >= 0 and b.radius.imag >= 0
                if not same:
                    acc.violation('strict_arc_differs_from_default_arc', ssig, scase,
                                  observed={'center': b.center, 'radius': b.radius, 'theta': b.theta, 'delta': b.delta},
                                  expected={'center': a.center, 'radius': a.radius, 'theta': a.theta, 'delta': a.delta})
            elif region == 'too_small':
                if rr[0] == 'ok' or not str(rr[1]).startswith('ValueError'):
                    acc.violation('strict_arc_not_refused_although_no_ellipse_fits', ssig, scase, observed=repr(rr)[:200], expected='ValueError')


def dyadic_exact_fit_grid():
    """half ellipses whose numbers are small dyadic rationals and whose rotation is 0: lambda == 1 in exact arithmetic
    AND in floating point, so the strict constructor must accept them"""
    for start, end, radius in ((0j, 4 + 0j, 2 + 1j), (1 + 1j, 1 + 5j, 3 + 2j), (-2 + 0.5j, 6 + 0.5j, 4 + 4j), (0.25j, 0.25j + 1, 0.5 + 8j), (3 - 3j, -5 - 3j, 4 + 0.125j)):
        for fl in FLAGS:
            yield ('dyadic', [start.real, start.imag], [end.real, end.imag], [radius.real, radius.imag], list(fl))


def check_dyadic(g, acc):
    from fractions import Fraction as F
    _, st, en, ra, fl = g
    start, end, radius = complex(*st), complex(*en), complex(*ra)
    lam = (F(en[0] - st[0]) / 2) ** 2 / F(ra[0]) ** 2 + (F(en[1] - st[1]) / 2) ** 2 / F(ra[1]) ** 2
    assert lam == 1, lam
    spec = (start, radius, 0, fl[0], fl[1], end)
    case = {'grid': list(g)}
    acc.case(case, cls='exact_fit_in_exact_arithmetic/la%d/sw%d' % tuple(fl))
    sig = {'region': 'exact_fit_in_exact_arithmetic', 'large_arc': bool(fl[0]), 'sweep': bool(fl[1]), 'rotated': False}
    r = outcome(lambda: Arc(*spec))
    if r[0] != 'ok':
        acc.violation('constructor_raises', dict(sig, exc=r[1]), case, observed=r)
        return
    check_strict(spec, r[1], 'exact_fit', sig, case, acc, exact_fit_is_exact=True)


def shards(tier, seed):
    return [{'k': k} for k in range(32)]


def run_shard(desc, tier, seed):
    acc = core.Acc()
    for i, g in enumerate(itertools.chain(grid(tier), center_grid(tier), near_grid(tier), collide_grid(tier))):
        if i % 32 == desc['k']:
            check_arc(g, acc)
    for i, g in enumerate(dyadic_exact_fit_grid()):
        if i % 32 == desc['k']:
            check_dyadic(g, acc)
    return acc


def expected_classes(tier):
    out = ['after_an_arc_with_colliding_hash']
    for region in ('too_small', 'fits', 'exact_fit'):
        for la in (0, 1):
            for sw in (0, 1):
                for ax in ('axis', 'rotated'):
                    out.append('%s/la%d/sw%d/%s' % (region, la, sw, ax))
    return out


def space(tier, seed):
    th = tier == 'thorough'
    return {'strict_constructor': 'every arc also with autoscale_radius=False (keyword, positional) and True, with rx or ry negated; %d dyadic exact-fit half ellipses' % len(list(dyadic_exact_fit_grid())),
            'directions': DIRS_T if th else DIRS[:8], 'chord_lengths': DISTS_T if th else DISTS, 'radii_relative_to_half_chord': RADII,
            'rotations': ROTS_T if th else ROTS, 'start_points': STARTS_T if th else [STARTS_T[0]], 'flags': FLAGS, 't_grid': TS, 'derivative_orders': [1, 2, 3, 4, 5], 'arcs': len(list(grid(tier))),
            'centre_built_arcs (radii x rotation x start angle x span incl. 180 +- tiny)': len(list(center_grid(tier)))}


def replay(case):
    acc = core.ReplayAcc()
    g = case['grid']
    if g[0] == 'dyadic':
        check_dyadic(tuple(g), acc)
        return acc.vlist
    if g[0] == 'collide':
        check_arc((g[0], g[1], tuple(g[2]), g[3]), acc)
    elif g[0] == 'near':
        check_arc((g[0], g[1], g[2], tuple(g[3]), g[4], tuple(g[5])), acc)
    elif g[0] == 'center':
        check_arc(tuple(g), acc)
    else:
        check_arc((g[0], g[1], tuple(g[2]), g[3], tuple(g[4])) + tuple(g[5:]), acc)
    return acc.vlist
