"""Exact arithmetic kit: Gaussian rationals, degree-tracking ring elements,
polynomials over Q with Sturm sequences / root isolation."""
from fractions import Fraction
import numbers


def F(x):
    if isinstance(x, Fraction):
        return x
    if isinstance(x, float):
        return Fraction(x)       # exact
    if isinstance(x, numbers.Integral):
        return Fraction(int(x))
    try:
        import numpy as np
        if isinstance(x, np.floating):
            return Fraction(float(x))
        if isinstance(x, np.integer):
            return Fraction(int(x))
        if isinstance(x, np.ndarray) and x.ndim == 0:
            return F(x.item())
    except ImportError:
        pass
    raise TypeError('not a rational: %r' % (x,))


def _is_array(o):
    try:
        import numpy as np
        return isinstance(o, np.ndarray) and o.ndim > 0
    except ImportError:
        return False


class GQ(object):
    """Gaussian rational a + b i with exact arithmetic."""
    __slots__ = ('re', 'im')

    def __init__(self, re=0, im=0):
        self.re = F(re)
        self.im = F(im)

    @staticmethod
    def of(x):
        if isinstance(x, GQ):
            return x
        if isinstance(x, complex):
            return GQ(x.real, x.imag)
        try:
            import numpy as np
            if isinstance(x, np.complexfloating):
                return GQ(float(x.real), float(x.imag))
            if isinstance(x, np.ndarray) and x.ndim == 0:
                return GQ.of(x.item())
        except ImportError:
            pass
        return GQ(F(x), 0)

    @property
    def real(self):
        return self.re

    @property
    def imag(self):
        return self.im

    def __add__(self, o):
        if _is_array(o):
            return NotImplemented
        o = GQ.of(o)
        return GQ(self.re + o.re, self.im + o.im)
    __radd__ = __add__

    def __sub__(self, o):
        if _is_array(o):
            return NotImplemented
        o = GQ.of(o)
        return GQ(self.re - o.re, self.im - o.im)

    def __rsub__(self, o):
        if _is_array(o):
            return NotImplemented
        return GQ.of(o) - self

    def __mul__(self, o):
        if _is_array(o):
            return NotImplemented
        o = GQ.of(o)
        return GQ(self.re * o.re - self.im * o.im, self.re * o.im + self.im * o.re)
    __rmul__ = __mul__

    def __truediv__(self, o):
        if _is_array(o):
            return NotImplemented
        o = GQ.of(o)
        n = o.re * o.re + o.im * o.im
        return GQ((self.re * o.re + self.im * o.im) / n, (self.im * o.re - self.re * o.im) / n)

    def __rtruediv__(self, o):
        return GQ.of(o) / self

    def __neg__(self):
        return GQ(-self.re, -self.im)

    def __pos__(self):
        return self

    def __pow__(self, n):
        if not isinstance(n, int) or n < 0:
            raise TypeError('GQ ** non-negative int only')
        r = GQ(1, 0)
        for _ in range(n):
            r = r * self
        return r

    def __eq__(self, o):
        try:
            o = GQ.of(o)
        except TypeError:
            return NotImplemented
        return self.re == o.re and self.im == o.im

    def __ne__(self, o):
        r = self.__eq__(o)
        return r if r is NotImplemented else not r

    def __hash__(self):
        return hash((self.re, self.im))

    def __complex__(self):
        return complex(float(self.re), float(self.im))

    def __repr__(self):
        return 'GQ(%s, %s)' % (self.re, self.im)

    def norm2(self):
        return self.re * self.re + self.im * self.im


class TrackError(Exception):
    pass


class DT(object):
    """Degree-tracking abstract ring element: an upper bound of the degree in
    each named variable.  Any value-dependent operation raises TrackError."""
    preconditions = []

    def __init__(self, deg=None):
        self.deg = dict(deg or {})

    @staticmethod
    def var(name):
        return DT({name: 1})

    @staticmethod
    def of(x):
        if isinstance(x, DT):
            return x
        if isinstance(x, (int, float, complex, Fraction, GQ)):
            return DT({})
        try:
            import numpy as np
            if isinstance(x, np.number):
                return DT({})
            if isinstance(x, np.ndarray) and x.ndim == 0:
                return DT.of(x.item())
        except ImportError:
            pass
        raise TrackError('foreign operand %r' % (x,))

    def _max(self, o):
        if _is_array(o):
            return NotImplemented
        o = DT.of(o)
        d = dict(self.deg)
        for k, v in o.deg.items():
            d[k] = max(d.get(k, 0), v)
        return DT(d)

    def _sum(self, o):
        if _is_array(o):
            return NotImplemented
        o = DT.of(o)
        d = dict(self.deg)
        for k, v in o.deg.items():
            d[k] = d.get(k, 0) + v
        return DT(d)

    __add__ = __radd__ = __sub__ = __rsub__ = _max
    __mul__ = __rmul__ = _sum

    def __truediv__(self, o):
        if isinstance(o, DT):
            if o.deg:
                raise TrackError('division by a non-constant')
            return DT(self.deg)
        return DT(self.deg)

    def __rtruediv__(self, o):
        raise TrackError('division by a tracked element')

    def __neg__(self):
        return DT(self.deg)

    def __pos__(self):
        return self

    def __pow__(self, n):
        if not isinstance(n, int) or n < 0:
            raise TrackError('power')
        return DT({k: v * n for k, v in self.deg.items()})

    def __eq__(self, o):
        DT.preconditions.append('==')
        return False

    def __ne__(self, o):
        DT.preconditions.append('!=')
        return True

    __hash__ = None

    def _bad(self, *a, **k):
        raise TrackError('value-dependent operation on a tracked element')
    __bool__ = __lt__ = __le__ = __gt__ = __ge__ = __abs__ = __float__ = __int__ = __complex__ = _bad

    @property
    def real(self):
        raise TrackError('.real on a tracked element')

    @property
    def imag(self):
        raise TrackError('.imag on a tracked element')

    def __repr__(self):
        return 'DT(%r)' % (self.deg,)


# ----------------------------------------------------------------- Q[x]

class QPoly(object):
    """polynomial over Q, coefficients lowest degree first"""

    def __init__(self, coeffs):
        c = [F(x) for x in coeffs]
        while c and c[-1] == 0:
            c.pop()
        self.c = c

    @staticmethod
    def from_high(coeffs):
        return QPoly(list(coeffs)[::-1])

    def deg(self):
        return len(self.c) - 1

    def is_zero(self):
        return not self.c

    def __call__(self, x):
        x = F(x)
        r = Fraction(0)
        for a in reversed(self.c):
            r = r * x + a
        return r

    def __add__(self, o):
        n = max(len(self.c), len(o.c))
        return QPoly([(self.c[i] if i < len(self.c) else 0) + (o.c[i] if i < len(o.c) else 0) for i in range(n)])

    def __neg__(self):
        return QPoly([-a for a in self.c])

    def __sub__(self, o):
        return self + (-o)

    def __mul__(self, o):
        if not isinstance(o, QPoly):
            return QPoly([a * F(o) for a in self.c])
        if self.is_zero() or o.is_zero():
            return QPoly([])
        r = [Fraction(0)] * (len(self.c) + len(o.c) - 1)
        for i, a in enumerate(self.c):
            if a:
                for j, b in enumerate(o.c):
                    r[i + j] += a * b
        return QPoly(r)
    __rmul__ = __mul__

    def deriv(self):
        return QPoly([i * a for i, a in enumerate(self.c)][1:])

    def divmod(self, o):
        if o.is_zero():
            raise ZeroDivisionError
        r = list(self.c)
        q = [Fraction(0)] * max(0, len(r) - len(o.c) + 1)
        lo = o.c[-1]
        while len(r) >= len(o.c) and r:
            k = len(r) - len(o.c)
            f = r[-1] / lo
            q[k] = f
            for i, b in enumerate(o.c):
                r[k + i] -= f * b
            r.pop()
            while r and r[-1] == 0:
                r.pop()
        return QPoly(q), QPoly(r)

    def gcd(self, o):
        a, b = self, o
        while not b.is_zero():
            a, b = b, a.divmod(b)[1]
        if a.is_zero():
            return a
        return a * (1 / a.c[-1])

    def squarefree(self):
        if self.deg() <= 0:
            return self
        g = self.gcd(self.deriv())
        if g.deg() <= 0:
            return self
        return self.divmod(g)[0]

    def sturm(self):
        p0 = self.squarefree()
        seq = [p0, p0.deriv()]
        while not seq[-1].is_zero():
            r = seq[-2].divmod(seq[-1])[1]
            if r.is_zero():
                break
            seq.append(-r)
        return seq

    @staticmethod
    def _variations(vals):
        s = [v for v in vals if v != 0]
        return sum(1 for a, b in zip(s, s[1:]) if (a < 0) != (b < 0))

    def count_roots(self, a, b, seq=None):
        """number of distinct real roots in the half-open interval (a, b]"""
        if self.deg() <= 0:
            return 0
        seq = seq or self.sturm()
        a, b = F(a), F(b)
        return self._variations([p(a) for p in seq]) - self._variations([p(b) for p in seq])

    def isolate(self, a, b, width=Fraction(1, 2 ** 60)):
        """isolating intervals (lo, hi) - or exact (r, r) - of the distinct real
        roots in the closed interval [a, b].  Rational roots met at bisection
        points (and at a, b) are deflated exactly, so Sturm counts are never
        taken at a root."""
        if self.deg() <= 0:
            return []
        sf = self.squarefree()
        a, b = F(a), F(b)
        exact = []

        def deflate(sf, r):
            return sf.divmod(QPoly([-r, 1]))[0]
        for e in sorted(set((a, b))):
            if sf.deg() >= 1 and sf(e) == 0:
                exact.append(e)
                sf = deflate(sf, e)
        out = []
        stack = [(a, b)]
        seq = sf.sturm() if sf.deg() >= 1 else None
        while stack and sf.deg() >= 1:
            lo, hi = stack.pop()
            n = QPoly._variations([p(lo) for p in seq]) - QPoly._variations([p(hi) for p in seq])
            if n == 0:
                continue
            mid = (lo + hi) / 2
            if sf(mid) == 0:
                exact.append(mid)
                sf = deflate(sf, mid)
                seq = sf.sturm() if sf.deg() >= 1 else None
                stack.append((lo, hi))
                continue
            if n == 1 and hi - lo <= width:
                out.append((lo, hi))
                continue
            stack.append((lo, mid))
            stack.append((mid, hi))
        out += [(e, e) for e in exact]
        out.sort()
        return out

    def real_roots_float(self, a, b):
        """distinct real roots in [a, b] as floats (midpoints of 2^-60 isolating intervals)"""
        return [float((lo + hi) / 2) for lo, hi in self.isolate(a, b)]

    def __repr__(self):
        return 'QPoly(%s)' % self.c


def bernstein_eval(pts, t):
    """de Casteljau in whatever ring the inputs live in"""
    pts = list(pts)
    n = len(pts)
    for r in range(1, n):
        pts = [(1 - t) * pts[i] + t * pts[i + 1] for i in range(n - r)]
    return pts[0]


def bezier_to_qpoly(vals):
    """control values (rationals) -> QPoly in t (power basis), exact"""
    from math import comb
    n = len(vals) - 1
    c = []
    for j in range(n + 1):
        s = Fraction(0)
        for i in range(j + 1):
            s += (-1) ** (i + j) * comb(j, i) * F(vals[i])
        c.append(comb(n, j) * s)
    return QPoly(c)
