"""./check <ID> --tier quick|thorough [--replay FILE] [--jobs N]"""
import argparse
import importlib
import json
import os
import sys

sys.path.insert(0, os.path.dirname(os.path.dirname(os.path.abspath(__file__))))
from mc import core  # noqa


def main():
    ap = argparse.ArgumentParser()
    ap.add_argument('prop')
    ap.add_argument('--tier', default=os.environ.get('VERIF_TIER', 'quick'),
                    choices=['quick', 'thorough'])
    ap.add_argument('--replay')
    ap.add_argument('--jobs', type=int, default=0)
    a = ap.parse_args()
    try:
        seed = int(os.environ.get('VERIF_SEED', '0'))
    except ValueError:
        seed = 0
    core.bind_repo()
    mod = importlib.import_module('mc.props.%s' % a.prop.lower())
    if a.replay:
        rec = json.load(open(a.replay))
        rc = rec['case']
        core.CONTEXT.clear()
        if isinstance(rc, dict):
            # how the objects of this case came into being (provenance / module settings) is part of the case
            for ck in core.CONTEXT_KEYS:
                if rc.get(ck):
                    core.CONTEXT[ck] = rc[ck]
            rc = {k: x for k, x in rc.items() if k not in core.CONTEXT_KEYS}
        with core.module_settings(core.CONTEXT.get('module')):
            if isinstance(rc, dict) and rc.get('what') == '__derive__':
                from mc import alphabets as _AB
                vs = _AB.replay_derive(dict(rc, prov=core.CONTEXT.get('prov')))
            else:
                vs = mod.replay(rc)
        same = [v for v in vs if v['clause'] == rec['clause']]
        for v in vs:
            print('replay: clause=%s observed=%s expected=%s detail=%s' % (
                v['clause'], core.canon(v['observed'])[:500], core.canon(v['expected'])[:500],
                str(v['detail'])[:500]))
        if same:
            print('VIOLATION property=%s replay=%s' % (mod.ID, os.path.abspath(a.replay)))
            sys.exit(1)
        print('replay: property %s holds on this case (clause %s not reproduced)' % (mod.ID, rec['clause']))
        sys.exit(0)
    acc, wall, nshards = core.run_harness(mod, a.tier, seed, a.jobs or None)
    sys.exit(core.finish(mod, acc, a.tier, seed, wall, nshards))


if __name__ == '__main__':
    main()
