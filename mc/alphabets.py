"""Shared finite alphabets: shape libraries (each entry exists because a code
branch keys on it), parameter alphabets, similarity maps."""
import math

from svgpathtools import Line, QuadraticBezier, CubicBezier, Arc, Path

NA0 = math.nextafter(0.0, 1.0)
NB1 = math.nextafter(1.0, 0.0)

T_ALPHABET = [0.0, 2.0 ** -52, 0.25, 1.0 / 3.0, 0.5, 0.7, 1.0 - 2.0 ** -53, 1.0]
T_INNER = [0.25, 1.0 / 3.0, 0.5, 0.7]
T_OUTSIDE = [-0.25, 1.25]


def _cusp_cubic():
    # x = (t-1/2)^2, y = (t-1/2)^3 scaled by 8: derivative vanishes at t = 1/2
    c = [8j, 8 - 12j, -8 + 6j, 2 - 1j]
    return (c[3], c[2] / 3 + c[3], (c[1] + 2 * c[2]) / 3 + c[3], c[0] + c[1] + c[2] + c[3])


LINES = {
    'L_horizontal': (0j, 4 + 0j),
    'L_vertical': (1 + 1j, 1 + 5j),
    'L_diagonal': (0j, 3 + 4j),
    'L_shallow': (-2 + 1j, 5 + 1.125j),
    'L_nondyadic': (0.1 + 0.2j, 0.7 - 0.3j),
    'L_tiny': (1 + 1j, 1.00003 + 1.00004j),        # length 5e-5
}

QUADS = {
    'Q_generic': (0j, 2 + 3j, 5 + 1j),
    'Q_collinear_nofold': (0j, 1 + 1j, 4 + 4j),
    'Q_foldback_real': (0j, 2 + 0j, 1 + 0j),           # speed zero inside (0,1)
    'Q_foldback_imag': (0j, 5j, 1j),
    'Q_foldback_diag': (1 + 1j, 4 + 5j, 2.5 + 3j),
    'Q_control_eq_start': (0j, 0j, 3 + 2j),
    'Q_control_eq_end': (0j, 3 + 2j, 3 + 2j),
    'Q_elevated_line': (0j, 2 + 1j, 4 + 2j),            # a == 0 exactly
    'Q_nondyadic': (0.1 + 0.1j, 0.4 + 0.9j, 0.8 + 0.2j),
    'Q_closed_loop': (0j, 3 + 4j, 0j),
    'Q_almost_line': (0j, 2.00002 + 1.00001j, 4 + 2j),      # straight, traversed almost uniformly (|a| ~ 4e-5)
    'Q_uneven_legs': (0j, 2 - 0.1j, 22 + 35j),              # legs 2 : 40 - very non-uniform speed, sharp bend right after the start
}

CUBICS = {
    'C_arch': (0j, 1 + 2j, 3 + 2j, 4 + 0j),
    'C_sshape': (0j, 2 + 3j, 2 - 3j, 4 + 0j),
    'C_loop': (0j, 4 + 3j, -1 + 3j, 3 + 0j),
    'C_cusp': _cusp_cubic(),
    'C_foldback_real': (0j, 3 + 0j, -1 + 0j, 2 + 0j),
    'C_foldback_diag': (0j, 3 + 3j, -1 - 1j, 2 + 2j),
    'C_c1_eq_start': (0j, 0j, 2 + 2j, 3 + 0j),
    'C_c2_eq_end': (0j, 1 + 2j, 3 + 0j, 3 + 0j),
    'C_both_coincident': (0j, 0j, 3 + 1j, 3 + 1j),
    'C_elevated_quad_exact': (0j, 2 + 4j, 4 + 4j, 6 + 0j),       # denom == 0 in both coordinates
    'C_elevated_quad_rounded': (1.0 + 0j, 0.8666666666666667 + 0.3j, 0.8333333333333334 + 0.6j, 0.9 + 0.9j),
    'C_elevated_line': (0j, 1 + 1j, 2 + 2j, 3 + 3j),
    'C_monotone': (0j, 1 + 0.5j, 2 + 1.5j, 3 + 3j),
    'C_nondyadic': (0.1 + 0.3j, 0.5 + 1.1j, 1.3 + 0.9j, 1.7 - 0.2j),
    'C_axis_line_shaped': (0j, 1 + 0j, 2 + 0j, 3 + 0j),
    'C_nearly_quadratic': (0j, 2.000001 + 4j, 4 + 4j, 6 + 0j),   # leading coefficient 3e-6 (tiny but significant)
    'C_uneven_legs': (0j, 1.5 + 0j, 2 + 0.25j, 30 + 40j),        # legs 1.5 : 0.56 : 49
    'C_teardrop': (0.3 + 0.1j, 3.1 + 2.3j, -2.2 + 2.9j, 0.3 + 0.1j),   # closes on itself (start == end), non-dyadic
}

# (start, radius, rotation, large_arc, sweep, end)
ARCS = {
    'A_circle_small_ccw': (0j, 2 + 2j, 0, 0, 1, 2 + 2j),
    'A_circle_large_cw': (0j, 2 + 2j, 0, 1, 0, 2 + 2j),
    'A_ellipse_3to1': (0j, 3 + 1j, 0, 0, 1, 4 + 1j),
    'A_ellipse_rot30': (0j, 3 + 1j, 30, 1, 1, 2 + 2j),
    'A_ellipse_rot90': (1 + 1j, 1 + 3j, 90, 0, 0, 4 + 2j),
    'A_eccentric_100to1': (0j, 100 + 1j, -45, 0, 1, 50 + 52j),
    'A_too_small': (0j, 0.3 + 0.1j, 123.4, 1, 0, 3 + 1j),
    'A_exact_fit_semicircle': (0j, 2 + 2j, 0, 0, 1, 4 + 0j),
    'A_rot400': (0j, 4 + 2j, 400, 0, 0, 3 - 2j),
    'A_negative_radius': (0j, -3 - 2j, -725, 1, 1, 2 + 3j),
    'A_rot180_large': (2 + 0j, 2 + 1j, 180, 1, 1, -1j),       # rotation an odd multiple of 180: not the unrotated ellipse's frame
    'A_rot360': (0j, 3 + 1j, 360, 0, 1, 4 + 1j),
    'A_cw_large_rot30': (-1 - 5j, 6 + 4j, 30, 1, 0, 3 - 4j),      # clockwise large arc of a rotated ellipse: theta + delta < -360
    'A_nearly_circular': (0j, 2 + 2.000006j, 0, 1, 1, 2 + 2j),   # radii differ by 3e-6 relative: an ellipse, not a circle
}


def line(name):
    return Line(*LINES[name])


def quad(name):
    return QuadraticBezier(*QUADS[name])


def cubic(name):
    return CubicBezier(*CUBICS[name])


def arc(name):
    return Arc(*ARCS[name])


def bezier_library():
    out = [(n, Line(*v)) for n, v in LINES.items()]
    out += [(n, QuadraticBezier(*v)) for n, v in QUADS.items()]
    out += [(n, CubicBezier(*v)) for n, v in CUBICS.items()]
    return out


def arc_library():
    return [(n, Arc(*v)) for n, v in ARCS.items()]


def full_library():
    return bezier_library() + arc_library()


# arcs known to make() but not part of the shape library every harness iterates over (used by single families)
EXTRA_ARCS = {
    # chord 1, radius 1e7: a sweep of 5.7e-6 degrees, indistinguishable from a straight stroke by eye
    'A_nearly_straight': (0j, 1e7 + 1e7j, 0.0, False, True, 1 + 0j),
    'A_nearly_straight_cw_rot': (0.5 + 0.5j, 3e6 + 3e6j, 30.0, False, False, 2.5 + 1.5j),
}


def spec(name):
    for d in (LINES, QUADS, CUBICS, ARCS, EXTRA_ARCS):
        if name in d:
            return d[name]
    raise KeyError(name)


def _rot(deg):
    if deg % 360 == 0:
        return 1 + 0j
    if deg % 360 == 90:
        return 1j
    if deg % 360 == 180:
        return -1 + 0j
    if deg % 360 == 270:
        return -1j
    return complex(math.cos(math.radians(deg)), math.sin(math.radians(deg)))


def make(name, scale=1.0, shift=0j, rot=0):
    """segment from the library, coordinates rotated (about 0), scaled and shifted
    (exact construction, not through the library's own transforms)"""
    v = spec(name)
    w = _rot(rot)
    if name in ARCS or name in EXTRA_ARCS:
        s, r, rotation, la, sw, e = v
        seg = Arc(s * w * scale + shift, r * scale, rotation + rot, la, sw, e * w * scale + shift)
    else:
        pts = [p * w * scale + shift for p in v]
        seg = {2: Line, 3: QuadraticBezier, 4: CubicBezier}[len(pts)](*pts)
    from mc import core
    return derive(seg, core.CONTEXT.get('prov'))


# How a segment came into being.  Every entry returns the SAME curve (same defining values, up to the type of
# the numbers), but as the library itself hands it out: with numpy scalars, with caches filled, re-created from
# derived values.  A harness shard with {'prov': p} runs all its cases on such objects, against unchanged oracles.
PROVENANCES = ['reversed_twice', 'via_d_string', 'translated_0', 'scaled_1', 'rotated_0', 'cropped_full', 'numpy_scalars', 'warmed', 'loosely_measured', 'loosely_measured_reversed_twice',
               'strict_arc', 'module_settings_changed_and_restored']


def strict_arc(seg):
    """the same Arc constructed with autoscale_radius=False (radii that do not fit are refused instead of enlarged);
    the arc itself when it is not constructible that way (radii were enlarged, or fit only up to rounding)"""
    if not isinstance(seg, Arc):
        return seg
    try:
        q = Arc(seg.start, seg.radius, seg.rotation, seg.large_arc, seg.sweep, seg.end, autoscale_radius=False)
    except Exception:
        return seg
    return q if _same_path([seg], [q]) else seg


def with_module_settings_changed(obj):
    """the documented module-level settings of svgpathtools.path are changed, the object is measured, the settings
    are restored: nothing measured meanwhile may be remembered as a default-accuracy answer"""
    import warnings
    import svgpathtools.path as sp
    names = ['LENGTH_ERROR', 'LENGTH_MIN_DEPTH', 'ILENGTH_ERROR', 'ILENGTH_MIN_DEPTH', 'ILENGTH_S_TOL', 'ILENGTH_MAXITS', 'USE_SCIPY_QUAD']
    old = {n: getattr(sp, n) for n in names if hasattr(sp, n)}
    try:
        pts = [q for sg in (obj if hasattr(obj, 'continuous_subpaths') else [obj]) for q in (sg.start, sg.end)]
        size = max(abs(q) for q in pts) + abs(pts[0] - pts[-1]) + 1e-300
    except Exception:
        size = 1.0
    try:
        for n, v in (('LENGTH_ERROR', size), ('LENGTH_MIN_DEPTH', 0), ('ILENGTH_ERROR', size), ('ILENGTH_MIN_DEPTH', 0),
                     ('ILENGTH_S_TOL', 0.1 * size), ('ILENGTH_MAXITS', 5), ('USE_SCIPY_QUAD', False)):
            if n in old:
                setattr(sp, n, v)
        with warnings.catch_warnings():
            warnings.simplefilter('ignore')
            # (only whole lengths: an ilength in between legitimately recomputes everything with its own, explicit accuracy)
            for q in (lambda: obj.length(), lambda: obj.length(0, 1)):
                try:
                    q()
                except Exception:
                    pass
    finally:
        for n, v in old.items():
            setattr(sp, n, v)
    return obj


DERIVE_ERRORS = []


def derive(seg, prov):
    """_derive, but an operation of the library that RAISES on a library segment is recorded (the worker turns the
    record into a violation of the running property) instead of aborting the shard; the plain segment is used then"""
    if not prov:
        return seg
    try:
        return _derive(seg, prov)
    except Exception as e:
        from mc.enc import seg2j
        try:
            DERIVE_ERRORS.append({'prov': prov, 'seg': seg2j(seg), 'exc': type(e).__name__})
        except Exception:
            pass
        return seg


def replay_derive(case):
    from mc.enc import j2seg
    try:
        _derive(j2seg(case['seg']), case['prov'])
    except Exception as e:
        return [{'clause': 'operation_on_library_object_raises', 'case': case, 'observed': type(e).__name__, 'expected': None, 'detail': None}]
    return []


def _derive(seg, prov):
    if not prov:
        return seg
    import numpy as np
    from svgpathtools import parse_path
    if prov == 'strict_arc':
        return strict_arc(seg)
    if prov == 'module_settings_changed_and_restored':
        return with_module_settings_changed(seg)
    if prov == 'reversed_twice':
        return seg.reversed().reversed()
    if prov == 'via_d_string':
        if isinstance(seg, Line) and seg.start == seg.end:
            return seg
        out = parse_path(Path(seg).d())
        return out[0] if len(out) == 1 and type(out[0]) is type(seg) else seg
    if prov == 'translated_0':
        return seg.translated(0j)
    if prov == 'scaled_1':
        return seg.scaled(1.0)
    if prov == 'rotated_0':
        return seg.rotated(0, origin=0j)
    if prov == 'cropped_full':
        return seg if isinstance(seg, Arc) else seg.cropped(0, 1)
    if prov == 'numpy_scalars':
        if isinstance(seg, Arc):
            return Arc(np.complex128(seg.start), seg.radius, seg.rotation, seg.large_arc, seg.sweep, np.complex128(seg.end))
        return type(seg)(*[np.complex128(p) for p in seg.bpoints()])
    if prov == 'warmed':
        import warnings
        with warnings.catch_warnings():
            warnings.simplefilter('ignore')
            for q in (lambda: seg.length(), lambda: seg.bbox(), lambda: seg.length(0.1, 0.6), lambda: seg.point(0.3),
                      lambda: seg.length(0.5), lambda: seg.length(t1=0.5), lambda: seg.length(1, 0), lambda: seg.length(0, 0), lambda: seg.length(1, 1),
                      lambda: seg.derivative(0.3), lambda: getattr(seg, 'poly', lambda: None)(), lambda: seg.reversed(), lambda: hash(seg)):
                try:
                    q()
                except Exception:
                    pass
        return seg
    if prov in ('loosely_measured', 'loosely_measured_reversed_twice'):
        loosely_measure(seg)
        if prov == 'loosely_measured':
            return seg
        try:
            q = seg.reversed().reversed()
        except Exception:
            return seg
        return q if _same_path([seg], [q]) else seg
    raise ValueError(prov)


def rescaled_segment(seg, sc):
    """the same shape, every coordinate multiplied by sc (constructed, not through the library's scaled())"""
    if isinstance(seg, Arc):
        return Arc(seg.start * sc, seg.radius * sc, seg.rotation, seg.large_arc, seg.sweep, seg.end * sc)
    return type(seg)(*[q * sc for q in seg.bpoints()])


def fresh_copy(seg):
    """a new segment built from the public attributes only (no cache, no history)"""
    if isinstance(seg, Arc):
        return Arc(seg.start, seg.radius, seg.rotation, seg.large_arc, seg.sweep, seg.end)
    return type(seg)(*seg.bpoints())


def loosely_measure(obj):
    """ask for lengths with deliberately loose accuracy options (a caller who only wanted an estimate): error of the
    order of the object's size, min_depth 0, whole and partial, in both argument styles - later default-accuracy
    answers must not be affected.  (Only loose calls: a default-accuracy call in between would legitimately
    leave accurate values behind.)"""
    import warnings
    try:
        pts = [q for sg in (obj if hasattr(obj, 'continuous_subpaths') else [obj]) for q in (sg.start, sg.end)]
        size = max(abs(q) for q in pts) + abs(pts[0] - pts[-1]) + 1e-300
    except Exception:
        size = 1.0
    is_path = hasattr(obj, 'continuous_subpaths')
    calls = [lambda: obj.length(error=size, min_depth=0), lambda: obj.length(0, 1, 0.3 * size, 0)]
    if not is_path:
        # (a partial length or an ilength of a Path goes through T2t / t2T, which legitimately recomputes everything at default accuracy)
        calls += [lambda: obj.length(0.5, 1, error=size, min_depth=0), lambda: obj.length(0.25, 0.75, size, 1),
                  lambda: obj.length(1, 0, error=size, min_depth=0)]
        calls += [lambda: obj.ilength(0.3 * obj.length(error=size, min_depth=0), s_tol=0.1 * size, maxits=20, error=size, min_depth=0)]
    calls += [lambda: obj.length(error=size, min_depth=0), lambda: obj.length(error=size)]
    with warnings.catch_warnings():
        warnings.simplefilter('ignore')
        for q in calls:
            try:
                q()
            except Exception:
                pass


def provenance_shards(shards, tier, is_segment_shard, key='prov', values=None):
    """extra shard descriptors that re-run segment-library shards on derived objects: every provenance in
    the thorough tier, one per shard (rotating through the list) in the quick tier.  key='pprov' does the
    same for shards whose object under test is a Path (see derive_path)"""
    values = values or (PROVENANCES if key == 'prov' else PATH_PROVENANCES)
    out = []
    k = 0
    for d in shards:
        if not is_segment_shard(d):
            continue
        if tier == 'thorough':
            out += [dict(d, **{key: p}) for p in values]
        else:
            out.append(dict(d, **{key: values[k % len(values)]}))
            k += 1
    return out


# The same for whole paths: the path under test is replaced by an equal path as the library hands it out.
PATH_PROVENANCES = ['parsed', 'parsed_Z', 'reversed_twice', 'translated_0', 'rotated_0', 'scaled_1', 'measured',
                    'subpath_object', 'document', 'scaled_there_and_back', 'copied',
                    'loosely_measured', 'segments_loosely_measured', 'loosely_measured_reversed_twice',
                    'strict_arcs', 'module_settings_changed_and_restored']


def derive_path(p):
    """p itself, or (when the running shard has a 'pprov' context) an EQUAL path with another history:
    parsed from its own d-string (with or without Z: the parser's closed flag), reversed twice, moved by
    nothing, measured first, the object continuous_subpaths() returns, read back from an SVG document
    (carries .element / .transform), scaled by 2 and then by 1/2 (exact), copy.copy"""
    from mc import core
    prov = core.CONTEXT.get('pprov')
    if not prov or len(p) == 0:
        return p
    import copy
    import warnings
    from svgpathtools import parse_path
    with warnings.catch_warnings():
        warnings.simplefilter('ignore')
        if prov in ('parsed', 'parsed_Z'):
            try:
                q = parse_path(p.d(use_closed_attrib=(prov == 'parsed_Z')))
            except Exception:
                return p
            return q if _same_path(p, q) else p
        if prov == 'reversed_twice':
            q = p.reversed().reversed()
        elif prov == 'translated_0':
            q = p.translated(0j)
        elif prov == 'rotated_0':
            q = p.rotated(0, origin=0j)
        elif prov == 'scaled_1':
            q = p.scaled(1.0)
        elif prov == 'measured':
            for f in (lambda: p.length(), lambda: p.point(0.3), lambda: p.bbox(), lambda: p.start, lambda: p.end,
                      lambda: p.length(0.5), lambda: p.length(T1=0.5), lambda: p.length(0.2, 0.7), lambda: [sg.length(0.5) for sg in p], lambda: [sg.length(1, 0) for sg in p],
                      lambda: p.isclosed() if p.iscontinuous() else None, lambda: p.T2t(0.6), lambda: p.d()):
                try:
                    f()
                except Exception:
                    pass
            return p
        elif prov == 'subpath_object':
            subs = p.continuous_subpaths()
            return subs[0] if len(subs) == 1 else p
        elif prov == 'document':
            import os
            import tempfile
            from svgpathtools import Document
            d = tempfile.mkdtemp(prefix='verif_prov_')
            try:
                doc = Document()
                doc.add_path(p, attribs={'id': 'x'})
                fn = os.path.join(d, 'p.svg')
                doc.save(fn)
                got = Document(fn).paths()
                q = got[0] if len(got) == 1 else p
            except Exception:
                q = p
            finally:
                import shutil
                shutil.rmtree(d, ignore_errors=True)
        elif prov == 'scaled_there_and_back':
            q = p.scaled(2.0).scaled(0.5)
        elif prov == 'copied':
            q = copy.copy(p)
        elif prov == 'loosely_measured':
            loosely_measure(p)
            return p
        elif prov == 'module_settings_changed_and_restored':
            return with_module_settings_changed(p)
        elif prov == 'strict_arcs':
            q = Path(*[strict_arc(sg) for sg in p])
        elif prov == 'segments_loosely_measured':
            for sg in p:
                loosely_measure(sg)
            return p
        elif prov == 'loosely_measured_reversed_twice':
            for sg in p:
                loosely_measure(sg)
            loosely_measure(p)
            try:
                q = p.reversed().reversed()
            except Exception:
                return p
        else:
            raise ValueError(prov)
    return q if _same_path(p, q) else p


def _same_path(p, q):
    """the derived path may replace p only if it is the same path by value (each harness computes its
    reference from the segment values it built)"""
    if len(p) != len(q):
        return False
    for a, b in zip(p, q):
        if type(a) is not type(b):
            return False
        if isinstance(a, Arc):
            if not (a.start == b.start and a.end == b.end and a.large_arc == b.large_arc and a.sweep == b.sweep and
                    abs(a.radius - b.radius) <= 1e-12 * abs(a.radius) and abs((a.rotation - b.rotation + 180) % 360 - 180) <= 1e-12 and
                    abs(a.point(0.37) - b.point(0.37)) <= 1e-9 * (abs(a.radius) + 1e-300)):
                return False
        elif tuple(a.bpoints()) != tuple(b.bpoints()):
            return False
    return True
