"""Regenerates MANIFEST.json from the table below (keeps it valid at all times)."""
import json
import os

VERIF = os.path.dirname(os.path.dirname(os.path.abspath(__file__)))
BASE = ("cd /repo && SVGPATHTOOLS_VERIF= /venv/bin/python -m pytest -ra -q -p no:cacheprovider "
        "--timeout=900 --continue-on-collection-errors")

CHECKS = {
    'C16': dict(
        level='model_checking',
        technique='explicit-state BFS to a fixpoint over mutation/query histories of real Path objects; depth-bounded BFS over segment histories; differential oracle against freshly built objects',
        text='Every reachable state of a Path of <= LMAX segments over a 3-4 segment pool under ALL histories (of any length) of the mutation and cache-filling query operations is visited (fixpoint of the BFS, both with and without scipy) and in each state every public query is compared with a freshly constructed Path; segment-level histories are explored to a stated depth. This is the right level because the property quantifies over histories and the state space (segment values x cache validity) is finite under the bound.',
        note='Trusted: copy.deepcopy reproduces object state (self-checked per state); the state key merges stale cache values of one field (argument in mc/props/c16.py:path_key). Bound: pool, LMAX, start/end assignment pool, segment-history depth.',
        design='4/C16'),
    'C02': dict(
        level='model_checking',
        technique='exhaustive enumeration of all command programs up to length K x lexical styles, executed on the real parser and compared step-for-step with an independent reference interpreter of the SVG path grammar',
        text='Every program M0 c1..cK over the 20 command letters (K<=4 quick, K<=5 thorough in spaced style; K<=3/4 in all 8 lexical styles) is parsed by the real parser and by the reference interpreter; all 100 command-class transitions of the parser state machine are exercised. The property quantifies over programs, and the parser is a small state machine whose defects are interactions of consecutive commands, so bounded-exhaustive program enumeration is the fitting level.',
        note='Trusted: mc/refsvg.py as the reading of the SVG specification (its recogniser is cross-checked against its renderer on every case). Bound: K, fixed argument pool (7 rotations), 8 styles; trailing-dot numbers and arcs ending at their start excluded.',
        design='4/C02'),
    'C01': dict(
        level='model_checking',
        technique='exhaustive enumeration of all words over segment templates up to length N x coordinate embeddings x all 8 serialiser option combinations; round trip through the real Path.d and the real parser, cross-read by an independent path-data interpreter',
        text='Every word of segment templates (kind x start relation x control relation x end target x arc parameters) up to the bound is built, serialised under all 8 option combinations and re-parsed; the composition must be the identity (exact in absolute form, rounding-bounded in relative form). The serialiser and parser are small transducers whose defects are interactions between neighbouring segments and options, which bounded-exhaustive words reach.',
        note='Trusted: mc/refsvg.py as independent reader. Bound: word length (full alphabet <=2 quick / <=3 thorough; reduced alphabet <=3 / <=4; closed-through-start family <=5 / <=6), six coordinate embeddings, arc pool of six.',
        design='4/C01'),
    'C03': dict(
        level='model_checking',
        technique='degree certificate (real methods executed on degree-tracking ring elements) + exhaustive exact evaluation on the full product grid of Gaussian rationals (decides the polynomial identities for all inputs); exhaustive float grid for the rounding claim',
        text='Each identity (point/poly/points/poly2bez/bez2poly/derivative of every order) is a polynomial identity; the real method is run on degree-tracking elements to bound its degree per variable and then on every point of the full product grid with exact arithmetic, which by the grid lemma decides it for all complex control points and all t. The float claim is checked on every (shape, scale, t, representation) of the stated grid against exact rational evaluation.',
        note='Trusted: grid lemma; soundness of the degree tracker (value-dependent operations raise); Python Fraction arithmetic. If the implementation stops being ring-polymorphic the run reports grid_only (all_inputs_certificate false) instead of a certificate.',
        design='4/C03'),
    'C19': dict(
        level='model_checking',
        technique='per-degree degree certificate + exhaustive exact product grids for the Bezier helpers; for polyroots: every root multiset of the alphabet x every permutation of the numpy.roots answer (environment enumeration through a seam); exhaustive multiplicity patterns for rational_limit',
        text='Identities for degrees 0..8 are decided for all inputs as in C03. polyroots/polyroots01 depend on the order in which numpy returns roots, an environment answer the library does not control: every permutation (all n! up to 7/8 roots) of every multiset mixing simple, clustered, complex and out-of-range roots is fed through the real filter and every well-separated simple root must come back exactly once.',
        note='Trusted: numpy.roots accuracy for simple roots (1e-6); the seam replaces numpy.roots only inside this check. Roots exactly on the condition boundary are not demanded.',
        design='4/C19'),
    'C05': dict(
        level='exploration',
        technique='bounded-exhaustive enumeration of all paths (words over a segment pool x joint relations) x a T alphabet made of every boundary value and its float neighbours, against a reference T<->(k,t) model',
        text='All words of length <= 4 (quick) / 5 (thorough) over a 7-segment pool with length ratios 1e-3:1:1e3 and a zero-length line, every joint exactly coincident / 1 ulp apart / far apart, plus k-equal-lines families; every T of the boundary alphabet is mapped by the real point/T2t/t2T and compared with the reference intervals. Exhaustive over the stated finite space; no all-inputs claim.',
        note='Trusted: segment length() (decided by C06) for the reference fractions. Tolerances are computed from the representation (eps/fraction), not guessed.',
        design='4/C05'),
    'C06': dict(
        level='exploration',
        technique='bounded-exhaustive enumeration of shape library x rotations x scales x all sub-interval pairs x {scipy, fallback}, against an independently computed rigorous length bracket and an independent quadrature',
        text='Every (shape, rotation, scale, t0<=t1, configuration) of the stated grid is evaluated by the real length() on a fresh object and must lie in the chord/control-polygon bracket of a 4096-piece subdivision, agree with independent Gauss-Legendre quadrature, be finite, non-negative and additive. The scipy seam (svgpathtools.path._quad_available) is toggled by the explorer. Exhaustive over the grid; no all-inputs claim (length is not polynomial).',
        note='Trusted: mc/refgeom.py bracket and quadrature; independent F.6.5 arc parameters. Fallback configuration runs at scales <= 2^-6 (quick) / <= 1 (thorough) under a point-evaluation budget; capped cases are reported, not counted as explored.',
        design='4/C06'),
    'C07': dict(
        level='exploration',
        technique='bounded-exhaustive enumeration of curve library x scales 1e-3..1e6 x s alphabet (boundaries and their float neighbours), with a step budget on length evaluations deciding termination',
        text='Every (curve, scale, s) of the grid is inverted by the real ilength under a budget of 400 length evaluations (a bisection on doubles needs < 70; the unfixed code needed 10000 and then raised); results must be in [0,1], invert length to max(s_tol, 4096 ulp(L)) (5e-3 L across a speed zero, the accuracy C06 grants length there), be monotone along the sorted alphabet, hit 0 and 1 exactly at 0 and L, and raise ValueError outside [0,L].',
        note='Trusted: length() (C06). Budget is a step count, not wall time. scipy configuration only.',
        design='4/C07'),
    'C08': dict(
        level='exploration',
        technique='bounded-exhaustive enumeration of Bezier shapes x rotations x scales, all degree-elevated quadratics on a 0.1 grid, an arc grid over rotation x radii x start angle x span, and paths, against exact extrema from rational root isolation (Sturm) and analytic arc critical angles',
        text='Every segment of the stated grids has its bbox() compared side by side with the exact extrema of its coordinate polynomials (Sturm root isolation over Q on the float control values), resp. the analytic extrema of the stored ellipse arc; tightness 1e-9*size implies containment, which is also checked on a 129-point grid of the real point().',
        note='Trusted: mc/exact.py root isolation. Exhaustive over the grids only.',
        design='4/C08'),
    'C04': dict(
        level='exploration',
        technique='bounded-exhaustive enumeration of arc constructor parameters (chord direction x length x radius pool incl. the float neighbourhood of the exact fit x rotation pool x flags, plus arcs built from a known centre incl. spans 180 +- tiny), against an independent implementation of W3C F.6.5/F.6.6',
        text='Every arc of the grids is constructed by the real Arc and compared with the independent endpoint-to-centre conversion: radii rule (exactly unchanged / minimally enlarged), end points, centre, every sampled point on the stored ellipse, monotone eccentric angle in the sweep direction, span vs large_arc, derivative orders 1..5 against the analytic derivative and finite differences of point, approximations start/end/contiguity. All 24 region classes (Lambda region x flags x axis-aligned/rotated) must be hit.',
        note='Trusted: mc/refgeom.arc_center_params (math only). Grid only.',
        design='4/C04'),
    'C09': dict(
        level='exploration',
        technique='bounded-exhaustive enumeration of segment library x rotations x scales x all (t0,t1) pairs and split points of a t alphabet x u grid, and of all paths (words over 4 segment kinds, open / closed by line / closed by curve) x all ordered (T0,T1) pairs incl. exact joints and wrap-around, against the documented parameter maps',
        text='The maps are affine reparameterisations, so each is checked pointwise on a u grid with tolerance 1e-9*size (1e-7 where an Arc is re-created from end points). Path crops are checked for end points, joined pieces, no zero-length pieces, and length against length(T0,T1), for every ordered pair of the T alphabet (joints included).',
        note='Trusted: point() (C03/C04) and length() (C06). Grid only.',
        design='4/C09'),
    'C10': dict(
        level='model_checking',
        technique='explicit-state BFS closure of the affine-matrix monoid generated by 9 generators up to a depth (states = distinct matrices), each state applied through the real transform() to every library segment and path; exhaustive argument grids for translated/rotated/scaled',
        text='States are the distinct 3x3 matrices reachable by products of rotations, uniform/non-uniform scales, reflection, axis swap, shear and translation (depth 3 quick, 4 thorough); the oracle depends only on the matrix, so rounding the entries is a sound state key. In every state transform(curve, M).point(t) is compared with M applied to point(t) for all four segment classes and for paths, and exactly coincident joints (closing joint included) must stay exactly coincident.',
        note='Trusted: point() of the original curve. Matrices outside the generated monoid slice are not covered.',
        design='4/C10'),
    'C11': dict(
        level='exploration',
        technique='bounded-exhaustive enumeration of all 16 ordered segment-type pairs x configuration families (crossing, tangential touch, near-miss at two gaps, disjoint, end-point contact) x placement parameters, and of path pairs x rigid motions; every returned pair is judged',
        text='For every configuration of the grid both operand orders are solved by the real intersect; every returned pair must be in range and have residual <= 1e-5*size (1e-3 with an arc), the two orders must report the same crossings (mutual matching within 1e-4; not for general arc-arc pairs, whose solver is documented incomplete), and Path.intersect results must be coherent in T/t/segment membership. Exceptions are tolerated only where the property tolerates them.',
        note='Trusted: point() of both curves. Tangency of two curved segments (20-50 s per call in the subdivision solver) is limited to three pairs in the thorough tier.',
        design='4/C11'),
    'C12': dict(
        level='exploration',
        technique='bounded-exhaustive enumeration of constructed transversal crossings (shape pair x parameters x angle grid, admitted by an independent dense neighbourhood search) and of Line x Bezier pairs over a lattice of lines whose exact crossing count is decided by Sturm sequences over Q; paths with exact expected counts',
        text='Each constructed crossing must be reported exactly once within 1e-4 in both parameters; for Line-Line/Line-Bezier/Bezier-Line pairs in general position (decided exactly, others filtered and counted) the number of reported pairs must equal the exact count in both operand orders; Path.intersect must report the exact total for polyline x Bezier-chain pairs.',
        note='Trusted: mc/exact.py root isolation; the dense neighbourhood search as the reading of "well separated". Two arcs only when both circular and unrotated.',
        design='4/C12'),
    'C13': dict(
        level='exploration',
        technique='bounded-exhaustive enumeration of Bezier library x rotations x query-point families (far, near, on the curve, centre of curvature, beyond the ends, lattice) and paths, against dense evaluation refined by golden-section search',
        text='For every (curve, query point) of the grid the real radialrange / closest_point_in_path / farthest_point_in_path answer must have t in [0,1], d equal to the distance at the returned parameter (1e-9*size) and no sampled-and-refined point of the curve closer than dmin or farther than dmax (1e-6*size); for paths the returned segment index must attain the extreme.',
        note='Trusted: point(); the dense + refined reference (4097 samples, local golden-section).',
        design='4/C13'),
    'C14': dict(
        level='exploration',
        technique='exhaustive enumeration of all closed polygons with 3..k vertices on a 3x3 lattice x two embeddings (plus curved closed paths and ellipses), each with area + transforms, a grid of enclosure probes and containment pairs, against exact rational shoelace / integral / crossing-parity oracles',
        text='Every closed lattice polygon up to 4 (quick) / 5 (thorough) vertices - convex, concave, self-intersecting, degenerate - is built; area() is compared with the exact shoelace value and its reversed/translated/scaled variants with the exact transformation law; path_encloses_pt is compared with exact even-odd parity of the same probe for every probe certified (exactly, with a 1e-9 margin) to be in general position; is_contained_by with exact proper-crossing + enclosure.',
        note='Trusted: Fraction arithmetic. Polygons with a retraced edge and probes within 1e-9 of a vertex/edge are filtered (counted in the evidence): a closed-interval test cannot decide them under rounding.',
        design='4/C14'),
    'C15': dict(
        level='exploration',
        technique='bounded-exhaustive enumeration of segment library x rotations x t alphabet, coincident-control Beziers x 8 headings x both ends x three input representations, and similarity transforms, against exact derivatives over Q',
        text='unit_tangent must be unit and equal the exact derivative direction; where the exact derivative vanishes at an end point it must equal the direction of the first non-vanishing exact higher derivative with the sign of the approach from inside [0,1] - for Python complex inputs, numpy scalars and the output of the library\'s own rotated(); normal = -i*tangent; curvature equals the exact formula at regular points (1/r on circular arcs, 0 on lines); tangent and curvature transform correctly under translation, rotation, scaling and reversal; the numpy error state is restored.',
        note='Trusted: Fraction arithmetic for exact derivatives. Interior parameters with (near-)zero speed are excluded (one-sided limits differ).',
        design='4/C15'),
    'C17': dict(
        level='exploration',
        technique='bounded-exhaustive enumeration of SVG documents (20 leaf kinds x all ordered pairs of a transform alphabet on two nested groups, own and sibling-group transforms rotating through it) read by four readers, against an independent flattener (own transform-list parser, spec geometry of basic shapes, own path-data interpreter)',
        text='Every document of the grid is written to a private temporary file and read by Document.paths, Document.paths_from_group (three groups), svg2paths (no transforms by design) and SaxDocument.flatten_all_paths; each returned path is matched to its element by id and compared as a point set (both directions) with the reference geometry under the reference matrix; path.transform is compared with the reference matrix.',
        note='Trusted: mc/refsvg.py as the reading of SVG 1.1 (7.6, 9.x). Geometry tolerance 5e-4*size (polyline sampling); order of the returned list is not compared.',
        design='4/C17'),
    'C18': dict(
        level='model_checking',
        technique='explicit-state BFS over Document writer histories (add_path with Path/segment/d-string into root or nested groups, add_group, save, save+reload), de-duplicated on the reference-model state and observed through every reader in every state; full product for wsvg (path lists x attributes x svg attributes x filename kinds)',
        text='A state is the reference model (ordered list of (path, attributes, group path) plus saved/reloaded status); each transition calls the real writer operation; in every state the Document\'s own paths() must show exactly the modelled paths, and after every save all three readers (svg2paths, Document, SaxDocument) must return the same paths (absolute-form equality of C01) with the supplied attributes. wsvg is checked on the full product of its alphabet including fresh sub-directories and file names with spaces.',
        note='Trusted: the list-of-paths reference model; private temporary directory per run. Depth 4 (quick) / 5 (thorough) over 9 operations.',
        design='4/C18'),
    'C20': dict(
        level='exploration',
        technique='bounded-exhaustive enumeration of turtle-generated line/cubic paths (type pattern x corner angles x segment lengths x open/closed x maxjointsize/tightness grids) with an independent kink test, end-point/closure test and dense distance test',
        text='Every path of the grid is smoothed by the real smoothed_path; the result must be continuous (== at joints), free of kinks by an independent control-polygon tangent test (1e-6 rad) and by the library\'s own kinks(), keep its end points (open) or stay closed (closed, closing joint included), stay within maxjointsize of the input (dense samples against 400-chord polylines) and leave already-smooth joints in place; a single-segment path is returned unchanged.',
        note='Trusted: point() and bpoints() of the result. 180-degree reversals are excluded by the property.',
        design='4/C20'),
}


# what the later rounds (seeded waves 4 and 5, DESIGN.md section 14) added to each exploration; appended to the claim text
EXTRA = {
    'C01': ' Also: closed paths that revisit an earlier vertex right before closing (lengths 4..5/6). A control relation \'mirror image of the last control point of a preceding curve of the other Bezier kind\' (S / T must not be used across kinds).',
    'C02': ' Also: one command letter repeated N times (N bracketing every power of two up to 256/1000) in the letter-dropping spellings, and relative moves whose float sum returns to the subpath start only up to rounding. The parser\'s other entry points and optional arguments (current_pos by keyword / position, tree_element, Path(d, z)) for every program of <= 4 commands. Every program of <= 3 commands also as a tiny, a far-away and a hairline drawing (exact power-of-two maps).',
    'C03': ' Also: the same ndarray refilled in place between two points() calls; polynomial-to-Bezier conversion for int / int-ndarray / poly1d / float / complex coefficients; thorough: every assignment of control points over a 9-value lattice. Optional arguments of the conversion helpers also by position. Scales 1e-9 .. 1e9 (thorough 1e-12 .. 1e12), shapes at 1e6+1e6j, parameters close to the ends.',
    'C04': ' Also: pairs of arcs differing by -1 / -2 in one number (equal hashes), radii too small by 1e-8..1e-4, a rotation of 3.6e12+25 degrees; thorough: 245 000 arcs incl. far-away start points. Every arc also through the strict constructor (autoscale_radius=False / True, keyword / positional, rx or ry negated); dyadic exact-fit half ellipses. Chords 2e-9 and 3e9; the parameter as an ndarray.',
    'C05': ' Also: every ordered pair (previous T, T) on one Path object (paths of <= 3 segments), and coherence after Path.approximate_arcs_with_cubics/quads in place. Paths with a history (measured with default or deliberately loose error / min_depth, reversed twice, parsed, strict arcs, module settings changed and restored ...); a doubling-back cubic in the pool; reference fractions from freshly built segments. Drawing regimes tiny / tinier / huge / far for words of <= 3 segments; paths with repeated segments.',
    'C06': ' Also: an arc whose radii differ by 3e-6 relative, shapes with very uneven control-polygon legs, a self-closing cubic. Non-default error / min_depth (relative and absolute, keyword and positional); the module switch USE_SCIPY_QUAD off; segment and path histories as in C05. Scales 1e-9 and 1e9 (thorough 1e-12 .. 1e9), shapes at 1e6+1e6j, sub-intervals next to the ends (without scipy tiny drawings are a known finding).',
    'C07': ' Also: all ordered pairs of calls (s, s_tol) on one object, ilength - edit through the Path interface (incl. -1 -> -2) - ilength against a fresh Path, and s = +-inf / nan. Non-default s_tol / maxits / error / min_depth (keyword and positional); references from freshly built objects; segment and path histories as in C05. Scales down to 1e-12; arc length up to the returned T from the segments\' own lengths.',
    'C08': ' Also: Path.bbox against the union of segment boxes for paths of every size bracketing the powers of two up to 256/1000 (gaps, sub-paths, a long stroke), plain-Python-int control points (incl. beyond 64 bits), negative radii. Pieces (cropped / split) of every library segment; arcs constructed with autoscale_radius=False, incl. radii 1e-8..1e-3 too small (refused, or subject to the property). Scales 1e-9 / 1e9; ordinary and 1e-4-size shapes at 1e6+1e6j with tolerances relative to the extent of the curve.',
    'C09': ' Also (graph mode): every sequence of up to 2 (quick) / 4 (thorough) reversed / cropped / split operations applied one after the other, against the composed affine parameter map (2.2 M states thorough); T values next to joints (joint +- 3e-9, joint - 1e-6), paths that retrace themselves, a two-subpath path, a path closed through Path.end = Path.start, int control points. Arcs constructed with autoscale_radius=False; the module switch USE_SCIPY_QUAD off. The named paths as drawings of scale 1e-12, 1e-9, 1e9; failing derivations are violations.',
    'C10': ' Depth is now 3 (quick) / 6 (thorough: 103 796 matrices). Also: matrices with |a|=|d|, |b|=|c| that are not similarities, non-dyadic scale factors, rotations by +- an arc\'s own rotation, one-segment closed paths, a path closed by editing its last segment after start/end were read. Invertible maps shrinking / enlarging by 1e-5, 1e-9, 1e6.',
    'C11': ' Also: lines exactly parallel to every control-polygon leg / chord / axis at exact offsets; lines at 0..1e-4 rad and a line against a piece of (almost) itself; a curve 250 times smaller than the one it crosses; T-coherence on grids of crossings between long paths (segment pairs bracketing 256 and 4096). Options tol / justonemode (keyword and positional); paths with a history; every reported T also against a freshly built equal path. A beyond-the-end family, scales 1e-9 / 1e9 for line pairs, nearly straight arcs.',
    'C12': ' Also: Line-Line / Line-Bezier pairs at scales 1e-9..1e9; unrotated arcs against lines axis-parallel up to a tilt of 0..1e-3 rad; crossings near either end of an arc; Path.intersect counts against the reduction over all segment pairs on grids whose numbers of pairs bracket 256 and 4096 (incl. one long stroke among short segments, a fine hatch 5e4 from the origin). The crossing asked for with an explicit tol and through the subdivision helper called directly (defaults, tol alone, both). Strokes whose sizes are 1e9 apart; single-segment paths incl. closed loops.',
    'C13': ' The reference is now EXACT: the extremes of |B(t)-z|^2 over Q (critical points isolated by Sturm sequences), two-sided. Also: query points on the evolute (k times the radius of curvature from B(t0), t0 incl. both ends), shapes with very uneven legs, zero-length Lines, straight lines stored as float-elevated quadratics / cubics, long paths (sizes bracketing the powers of two) against the reduction over segments. return_all_global_extrema given explicitly (False: the default answer; True: refused or only global extremes); every path history in both tiers. Scales 1e-9 / 1e9 and shapes at 1e6+1e6j in both tiers.',
    'C14': ' Also: area of reversed / translated copies made after the path answered other queries; polygons closed by a zero-length Line (what the polygon converter writes for a repeated first point). Area under the optional arguments of scaled / rotated (keywords, origin, sy == sx, sx = 0, sy = 0); ellipses of two strict arcs and their similarity transforms. A 1e-9 embedding of all lattice polygons (probes 1e9 times longer than the polygon); curved shapes at 1e-9 and 1e6.',
    'C15': ' Also: covariance of the tangent at a vanishing end derivative under every transform of the library (alone, inside a path, after reversed) for non-dyadic coordinates; shapes 3.6e5 from the origin; copies made after the source answered other queries; thorough: every assignment of 2..4 control points over a 7-value lattice on a 37-point t grid. Arcs constructed with autoscale_radius=False, plain and under every transform. Curvature of elliptical arcs; scales 1e-9 / 1e-12; shapes at 1e6+1e6j.',
    'C16': ' Further explorations, each to a fixpoint: close (path closed / opened through its setters), samehash (values -1 / -2), alias (one segment object at two positions; aliasing is part of the state key), depth (point-symmetric cubic, length(error, min_depth=0)); scripted histories on 31..129-segment paths; every exploration has a horizon (60 000 / 3 000 000 states) that is reported when hit. Whole-turn arc rotations in the equal-implies-same-hash pairs; shallow copies in the segment histories.',
    'C17': ' Also: a fifth reader (SaxDocument.save then SaxDocument), near-identity transforms with vertices of straight shapes compared to 1e-9*size, non-shape siblings carrying transforms, every legal spelling of a points list. Reader options: group_filter / path_filter / path_conversions (keyword, positional), paths_from_group by element / names, recursive or not, all 64 combinations of the convert_* flags of svg2paths (+ svg2paths2, svgstr2paths, return_svg_attributes) on a document with every element kind several times as siblings; sides of straight shapes compared at their midpoints too. Tiny and almost closed leaves; number of sides and open / closed compared structurally.',
    'C18': ' Also: a path obtained from the document, edited in place and added again; attribute values that need escaping; line breaks / tabs in values (wsvg loses them: known finding). wsvg\'s svg-level options (viewbox, dimensions, margin_size, mindim, baseunit ...), alone and with svg_attributes; the Document\'s group queries (root and every chain, recursive or not, by element / names) in every state. A 1e-10-scale drawing and one at 1e6+1e6j with small gaps in the writer pool.',
    'C19': ' Also: the same control points as int / bool / float / complex / Fraction / integer, float, complex ndarrays; an ndarray parameter; one root 9..15 orders of magnitude away; the polynomial handed over as real or complex-dtype ndarray, list, tuple, poly1d. All combinations of realroots / condition (keyword, positional); polynomials with the exact simple root 0; optional arguments of bezier2polynomial by position. Polynomials multiplied by 1e-14 / 1e14 / 2^-60; splits at parameters close to the ends.',
    'C20': ' Also: collinear cubics (straight, overshooting, backing up), ease-in / ease-out cubics, single segments of every kind incl. loops, turtle walks that return exactly to their start. Drawings at scales 1e-9, 1e-6, 1e6.',
}

NOT_YET = {}


def main():
    props = [json.loads(l) for l in open(os.path.join(VERIF, 'properties.jsonl'))]
    checks = []
    na = []
    for p in props:
        i = p['id']
        if i in CHECKS:
            c = CHECKS[i]
            checks.append({
                'property_id': i,
                'quick_cmd': './check %s --tier quick' % i,
                'thorough_cmd': './check %s --tier thorough' % i,
                'evidence_file': 'evidence/%s.json' % i,
                'replay_cmd_template': './check %s --replay {path}' % i,
                'engine': 'mc-explorer',
                'level_claimed': {'category': c['level'], 'text': c['text'] + EXTRA.get(i, ''), 'design_ref': c['design']},
                'level_note': c['note'],
                'technique': c['technique'],
            })
        else:
            na.append({'property_id': i, 'reason': NOT_YET.get(i, 'check not built yet in this round (model checking applies; see DESIGN.md section 4)')})
    m = {
        'version': 1,
        'setup_cmd': './setup.sh',
        'hooks': {'guard': 'SVGPATHTOOLS_VERIF',
                  'enable': 'no source hooks: checks import /repo directly and use in-process seams (module attributes, numpy.roots wrapper); SVGPATHTOOLS_VERIF=1 is exported by the checks but nothing in /repo reads it',
                  'baseline_off_cmd': BASE, 'source_commits': [], 'add_only': True},
        'engines': [{'name': 'mc-explorer', 'path': 'mc/core.py',
                     'serves_properties': sorted(CHECKS),
                     'kind_free_text': 'hand-written explicit-state / bounded-exhaustive explorer in Python running the real library code against Python reference models (graph mode: BFS with canonical state keys; product mode: odometer enumeration of stated finite spaces)'}],
        'checks': checks,
        'not_applicable': na,
        'notes': 'All checks: ./check <ID> --tier quick|thorough ; replay: ./check <ID> --replay <file>. Known findings: known_findings.json.',
    }
    with open(os.path.join(VERIF, 'MANIFEST.json'), 'w') as f:
        json.dump(m, f, indent=1)


if __name__ == '__main__':
    main()
