"""Independent reference semantics for SVG path data (written from the SVG 1.1 /
SVG 2 grammar and prose; shares no regex, tokeniser or state variable with
svgpathtools) plus renderers that spell one command program in several lexical
styles.

A *program* is a list of (letter, [args...]) where args are Python floats (and
0/1 ints for arc flags), one argument set per entry.

interpret(program) -> list of abstract segments
    ('L', p0, p1) | ('Q', p0, c, p1) | ('C', p0, c1, c2, p1) |
    ('A', p0, rx, ry, rot, large, sweep, p1)
parse(d) -> program           (character-level recursive descent recogniser)
"""
import math

WSP = ' \t\r\n'
NARGS = {'M': 2, 'L': 2, 'H': 1, 'V': 1, 'C': 6, 'S': 4, 'Q': 4, 'T': 2, 'A': 7, 'Z': 0}


class Ungrammatical(ValueError):
    pass


# ------------------------------------------------------------------ recogniser

class _Scanner(object):
    def __init__(self, s):
        self.s = s
        self.i = 0

    def peek(self):
        return self.s[self.i] if self.i < len(self.s) else ''

    def skip_wsp(self):
        while self.peek() and self.peek() in WSP:
            self.i += 1

    def comma_wsp(self):
        """optional comma-wsp; returns True if anything was consumed"""
        j = self.i
        self.skip_wsp()
        if self.peek() == ',':
            self.i += 1
            self.skip_wsp()
        return self.i != j

    def digits(self):
        j = self.i
        while self.peek().isdigit() and self.peek() in '0123456789':
            self.i += 1
        return self.s[j:self.i]

    def number(self, signed=True):
        j = self.i
        if signed and self.peek() in '+-' and self.peek():
            self.i += 1
        ip = self.digits()
        fp = ''
        if self.peek() == '.':
            k = self.i
            self.i += 1
            fp = self.digits()
            if not fp:
                # "1." is legal in SVG 1.1; keep the dot consumed
                if not ip:
                    self.i = j
                    raise Ungrammatical('number expected at %d' % j)
        if not ip and not fp:
            self.i = j
            raise Ungrammatical('number expected at %d in %r' % (j, self.s))
        if self.peek() in 'eE' and self.peek():
            k = self.i
            self.i += 1
            if self.peek() in '+-' and self.peek():
                self.i += 1
            if not self.digits():
                self.i = k        # not an exponent: leave 'e' for the caller (will be a syntax error)
        return float(self.s[j:self.i])

    def flag(self):
        c = self.peek()
        if c not in ('0', '1'):
            raise Ungrammatical('flag expected at %d in %r' % (self.i, self.s))
        self.i += 1
        return int(c)


def parse(d):
    """path data string -> program; raises Ungrammatical."""
    sc = _Scanner(d)
    prog = []
    sc.skip_wsp()
    first = True
    while sc.peek():
        c = sc.peek()
        if c not in 'MmZzLlHhVvCcSsQqTtAa':
            raise Ungrammatical('command letter expected at %d in %r' % (sc.i, d))
        if first and c not in 'Mm':
            raise Ungrammatical('path data must start with a moveto')
        first = False
        sc.i += 1
        up = c.upper()
        if up == 'Z':
            prog.append((c, []))
            sc.skip_wsp()
            continue
        sc.skip_wsp()
        n = 0
        while True:
            args = []
            for k in range(NARGS[up]):
                if k:
                    sc.comma_wsp()
                if up == 'A' and k in (3, 4):
                    args.append(sc.flag())
                elif up == 'A' and k in (0, 1):
                    args.append(sc.number(signed=False))
                else:
                    args.append(sc.number())
            letter = c
            if n and up == 'M':
                letter = 'L' if c == 'M' else 'l'
            prog.append((letter, args))
            n += 1
            j = sc.i
            sc.comma_wsp()
            nx = sc.peek()
            if nx and (nx.isdigit() or nx in '+-.'):
                continue
            sc.i = j
            break
        sc.skip_wsp()
    return prog


# ------------------------------------------------------------------ interpreter

def interpret(prog, current=0j):
    """SVG path semantics.  Returns (segments, closed_flags) where segments is
    the list described in the module docstring."""
    segs = []
    pen = current
    start = None      # initial point of the current subpath
    prev = None       # ('C', second control) or ('Q', control) of the previous command, else None
    first = True
    for letter, a in prog:
        up = letter.upper()
        rel = letter != up
        if first:
            if up != 'M':
                raise Ungrammatical('first command must be a moveto')
        base = pen if rel else 0j
        if up == 'M':
            pt = complex(a[0], a[1])
            # the very first moveto is absolute even when written 'm' (current = 0)
            pen = (pen + pt) if rel else pt
            start = pen
            prev = None
        elif up == 'Z':
            if start is None:
                raise Ungrammatical('closepath before moveto')
            if pen != start:
                segs.append(('L', pen, start))
            pen = start
            prev = None
        else:
            if start is None:
                raise Ungrammatical('drawing command before moveto')
            if up == 'L':
                end = base + complex(a[0], a[1])
                segs.append(('L', pen, end))
                prev = None
            elif up == 'H':
                end = complex((pen.real if rel else 0.0) + a[0], pen.imag)
                segs.append(('L', pen, end))
                prev = None
            elif up == 'V':
                end = complex(pen.real, (pen.imag if rel else 0.0) + a[0])
                segs.append(('L', pen, end))
                prev = None
            elif up == 'C':
                c1 = base + complex(a[0], a[1])
                c2 = base + complex(a[2], a[3])
                end = base + complex(a[4], a[5])
                segs.append(('C', pen, c1, c2, end))
                prev = ('C', c2)
            elif up == 'S':
                c1 = (2 * pen - prev[1]) if (prev and prev[0] == 'C') else pen
                c2 = base + complex(a[0], a[1])
                end = base + complex(a[2], a[3])
                segs.append(('C', pen, c1, c2, end))
                prev = ('C', c2)
            elif up == 'Q':
                c = base + complex(a[0], a[1])
                end = base + complex(a[2], a[3])
                segs.append(('Q', pen, c, end))
                prev = ('Q', c)
            elif up == 'T':
                c = (2 * pen - prev[1]) if (prev and prev[0] == 'Q') else pen
                end = base + complex(a[0], a[1])
                segs.append(('Q', pen, c, end))
                prev = ('Q', c)
            elif up == 'A':
                end = base + complex(a[5], a[6])
                if a[0] == 0 or a[1] == 0:
                    segs.append(('L', pen, end))
                else:
                    segs.append(('A', pen, abs(a[0]), abs(a[1]), a[2], bool(a[3]), bool(a[4]), end))
                prev = None
            pen = end
        first = False
    return segs


def arc_lambda(seg):
    """F.6.6: Lambda = x1'^2/rx^2 + y1'^2/ry^2 ; radii must be scaled by sqrt(Lambda) when > 1."""
    _, p0, rx, ry, rot, la, sw, p1 = seg
    phi = math.radians(rot)
    dx, dy = (p0.real - p1.real) / 2.0, (p0.imag - p1.imag) / 2.0
    x1 = math.cos(phi) * dx + math.sin(phi) * dy
    y1 = -math.sin(phi) * dx + math.cos(phi) * dy
    return (x1 * x1) / (rx * rx) + (y1 * y1) / (ry * ry)


# ------------------------------------------------------------------ renderers

def _num_plain(x):
    if isinstance(x, int):
        return str(x)
    r = repr(float(x))
    if r.endswith('.0'):
        r = r[:-2]
    return r


def _num_min(x):
    """shortest spelling: no leading zero before the dot"""
    r = _num_plain(x)
    if r.startswith('0.'):
        r = r[1:]
    elif r.startswith('-0.'):
        r = '-' + r[2:]
    return r


def _num_exp(x, k):
    """exponent spellings, rotating through a few legal forms"""
    if isinstance(x, int):
        return str(x)
    x = float(x)
    if 'e' in _num_plain(x) or 'inf' in _num_plain(x) or 'nan' in _num_plain(x):
        return _num_plain(x).replace('e', 'E') if k % 2 else _num_plain(x)
    forms = ['%se0', '%sE-1', '%se+1', '%sE1']
    mult = [1.0, 10.0, 0.1, 0.1]
    f = k % 4
    m = x * mult[f]
    # only use the form when the mantissa round-trips exactly
    txt = forms[f] % _num_plain(m)
    if float(txt) != x:
        txt = '%se0' % _num_plain(x)
    if txt.startswith('0.'):
        txt = txt[1:]
    return txt


def render(prog, style):
    """Spell a program.  Styles:
    spaced    'M 1 2 L 3 4'
    comma     'M1,2L3,4'
    wsp       tabs / newlines / CRLF / padded commas as separators
    plus      explicit '+' signs
    exponent  numbers in exponent notation
    implicit  repeated command letters dropped (lineto after moveto)
    arcflags  arc flags written without separators ('a1 1 0 0110 10')
    minimal   implicit + arcflags + no leading zeros + sign / second dot as the
              only separator wherever the grammar allows it ('M1-2L.5.5')
    """
    if style in ('spaced', 'plus', 'comma', 'wsp', 'exponent'):
        out = []
        k = 0
        for letter, args in prog:
            up = letter.upper()
            if style == 'spaced':
                out.append(' '.join([letter] + [_num_plain(a) for a in args]))
            elif style == 'plus':
                toks = []
                for i, a in enumerate(args):
                    t = _num_plain(a)
                    isflag = up == 'A' and i in (3, 4)
                    isradius = up == 'A' and i in (0, 1)
                    if not isflag and not isradius and not t.startswith('-'):
                        t = '+' + t
                    toks.append(t)
                out.append(' '.join([letter] + toks))
            elif style == 'comma':
                out.append(letter + ','.join(_num_plain(a) for a in args))
            elif style == 'wsp':
                seps = ['\t', '\n', ' \t ', '\r\n', ' , ', ',\n']
                t = letter + '\t'
                for i, a in enumerate(args):
                    if i:
                        t += seps[(k + i) % len(seps)]
                    t += _num_plain(a)
                out.append(t + '\n')
            elif style == 'exponent':
                t = letter
                for i, a in enumerate(args):
                    t += (' ' if i else '') + (_num_plain(a) if (up == 'A' and i in (3, 4)) else _num_exp(a, k + i))
                out.append(t)
            k += 1
        if style == 'comma':
            return ''.join(out)
        if style == 'wsp':
            return '\n\t' + ''.join(out) + ' \r\n'
        return ' '.join(out)

    if style not in ('implicit', 'arcflags', 'minimal'):
        raise ValueError(style)
    drop_letters = style in ('implicit', 'minimal')
    compact_flags = style in ('arcflags', 'minimal')
    tight = style == 'minimal'
    s = ''
    last = 'start'       # 'letter' | 'num' | 'numdot' (number containing '.' or exponent) | 'flag'
    implied = None       # the letter an omitted command letter would mean now
    for letter, args in prog:
        up = letter.upper()
        if drop_letters and up != 'Z' and implied == letter and args:
            pass
        else:
            if not tight and s:
                s += ' '
            s += letter
            last = 'letter'
        for i, a in enumerate(args):
            isflag = up == 'A' and i in (3, 4)
            if isflag:
                t = str(int(a))
            elif tight:
                t = _num_min(a)
            else:
                t = _num_plain(a)
            # separator needed?
            if last in ('num', 'numdot'):
                if tight and not isflag and t[0] == '-':
                    sep = ''
                elif tight and not isflag and t[0] == '.' and last == 'numdot':
                    sep = ''
                else:
                    sep = ' '
            elif last == 'flag':
                sep = '' if compact_flags else ' '
            elif last == 'letter':
                sep = '' if tight else ' '
            else:
                sep = ''
            s += sep + t
            if isflag:
                last = 'flag'
            else:
                last = 'numdot' if ('.' in t or 'e' in t or 'E' in t) else 'num'
        if up == 'M':
            implied = 'L' if letter == 'M' else 'l'
        elif up == 'Z':
            implied = None
        else:
            implied = letter
    return s


STYLES = ['spaced', 'comma', 'minimal', 'exponent', 'implicit', 'arcflags', 'wsp', 'plus']


# ====================================================================== transforms & shapes (reference)

def _mat_mul(A, B):
    return [[sum(A[i][k] * B[k][j] for k in range(3)) for j in range(3)] for i in range(3)]


IDENT = [[1.0, 0.0, 0.0], [0.0, 1.0, 0.0], [0.0, 0.0, 1.0]]


def transform_list(s):
    """SVG transform attribute -> 3x3 matrix (row-major lists), per SVG 1.1 section 7.6:
    the list is applied left to right as successive nestings (matrix product in the order written)."""
    if not s:
        return [row[:] for row in IDENT]
    M = [row[:] for row in IDENT]
    i = 0
    n = len(s)
    while i < n:
        while i < n and (s[i] in WSP or s[i] == ','):
            i += 1
        if i >= n:
            break
        j = i
        while j < n and (s[j].isalpha()):
            j += 1
        name = s[i:j]
        while j < n and s[j] in WSP:
            j += 1
        if j >= n or s[j] != '(':
            raise Ungrammatical('transform syntax at %d in %r' % (j, s))
        k = s.index(')', j)
        args = [float(x) for x in s[j + 1:k].replace(',', ' ').split()]
        i = k + 1
        if name == 'matrix' and len(args) == 6:
            a, b, c, d, e, f = args
            T = [[a, c, e], [b, d, f], [0.0, 0.0, 1.0]]
        elif name == 'translate' and len(args) in (1, 2):
            T = [[1.0, 0.0, args[0]], [0.0, 1.0, args[1] if len(args) == 2 else 0.0], [0.0, 0.0, 1.0]]
        elif name == 'scale' and len(args) in (1, 2):
            T = [[args[0], 0.0, 0.0], [0.0, args[1] if len(args) == 2 else args[0], 0.0], [0.0, 0.0, 1.0]]
        elif name == 'rotate' and len(args) in (1, 3):
            a = math.radians(args[0])
            c, sn = math.cos(a), math.sin(a)
            cx, cy = (args[1], args[2]) if len(args) == 3 else (0.0, 0.0)
            T = [[c, -sn, cx - c * cx + sn * cy], [sn, c, cy - sn * cx - c * cy], [0.0, 0.0, 1.0]]
        elif name == 'skewX' and len(args) == 1:
            T = [[1.0, math.tan(math.radians(args[0])), 0.0], [0.0, 1.0, 0.0], [0.0, 0.0, 1.0]]
        elif name == 'skewY' and len(args) == 1:
            T = [[1.0, 0.0, 0.0], [math.tan(math.radians(args[0])), 1.0, 0.0], [0.0, 0.0, 1.0]]
        else:
            raise Ungrammatical('unknown transform %r' % name)
        M = _mat_mul(M, T)
    return M


def apply_matrix(M, z):
    return complex(M[0][0] * z.real + M[0][1] * z.imag + M[0][2], M[1][0] * z.real + M[1][1] * z.imag + M[1][2])


def _ellipse_pts(cx, cy, rx, ry, a0, a1, n=300):
    import numpy as _np
    a = _np.linspace(a0, a1, n + 1)
    return list((cx + rx * _np.cos(a)) + 1j * (cy + ry * _np.sin(a)))


def sample_segments(segs, n=600):
    """abstract segments (from interpret) -> list of polylines (one per segment)"""
    from mc import refgeom
    out = []
    for s in segs:
        k = s[0]
        if k == 'L':
            out.append([s[1], s[2]])
        elif k in 'QC':
            pts = list(s[1:])
            out.append([refgeom.de_casteljau(pts, i / n) for i in range(n + 1)])
        else:
            _, p0, rx, ry, rot, la, sw, p1 = s
            par = refgeom.arc_center_params(p0, complex(rx, ry), rot, la, sw, p1)
            out.append([refgeom.arc_point(par, i / n) for i in range(n + 1)])
    return out


def shape_polylines(tag, at):
    """reference geometry of an SVG basic shape / path element as polylines (SVG 1.1 chapter 9)"""
    g = lambda k, d=0.0: float(at.get(k, d))
    if tag == 'path':
        return sample_segments(interpret(parse(at.get('d', ''))))
    if tag == 'line':
        return [[complex(g('x1'), g('y1')), complex(g('x2'), g('y2'))]]
    if tag in ('polyline', 'polygon'):
        # the number grammar of SVG 1.1 4.2 / 9.7.1: sign? (digits [. digits?] | . digits) exponent?
        import re as _re
        txt = at.get('points', '')
        toks = _re.findall(r'[+-]?(?:\d+\.?\d*|\.\d+)(?:[eE][+-]?\d+)?', txt)
        if _re.sub(r'[\s,]+', '', _re.sub(r'[+-]?(?:\d+\.?\d*|\.\d+)(?:[eE][+-]?\d+)?', ' ', txt)) != '':
            raise ValueError('points list not in the number grammar: %r' % txt)
        nums = [float(x) for x in toks]
        pts = [complex(nums[i], nums[i + 1]) for i in range(0, len(nums) - 1, 2)]
        if tag == 'polygon' and pts:
            pts = pts + [pts[0]]
        return [pts]
    if tag == 'circle':
        return [_ellipse_pts(g('cx'), g('cy'), g('r'), g('r'), 0.0, 2 * math.pi, 1500)]
    if tag == 'ellipse':
        return [_ellipse_pts(g('cx'), g('cy'), g('rx'), g('ry'), 0.0, 2 * math.pi, 1500)]
    if tag == 'rect':
        x, y, w, h = g('x'), g('y'), g('width'), g('height')
        rx, ry = at.get('rx'), at.get('ry')
        if rx is None and ry is None:
            rx = ry = 0.0
        elif rx is None:
            rx = ry = float(ry)
        elif ry is None:
            rx = ry = float(rx)
        else:
            rx, ry = float(rx), float(ry)
        rx, ry = min(rx, w / 2.0), min(ry, h / 2.0)
        if rx == 0 or ry == 0:
            return [[complex(x, y), complex(x + w, y), complex(x + w, y + h), complex(x, y + h), complex(x, y)]]
        hp = math.pi / 2
        out = []
        out.append([complex(x + rx, y), complex(x + w - rx, y)])
        out.append(_ellipse_pts(x + w - rx, y + ry, rx, ry, -hp, 0.0))
        out.append([complex(x + w, y + ry), complex(x + w, y + h - ry)])
        out.append(_ellipse_pts(x + w - rx, y + h - ry, rx, ry, 0.0, hp))
        out.append([complex(x + w - rx, y + h), complex(x + rx, y + h)])
        out.append(_ellipse_pts(x + rx, y + h - ry, rx, ry, hp, 2 * hp))
        out.append([complex(x, y + h - ry), complex(x, y + ry)])
        out.append(_ellipse_pts(x + rx, y + ry, rx, ry, 2 * hp, 3 * hp))
        return out
    raise ValueError(tag)
