"""Explorer core: sharded bounded-exhaustive enumeration, accumulation of
coverage, violation signatures, known findings, replay files and evidence.

Nothing in here samples.  A harness (mc/props/cNN.py) provides

    ID, LEVEL, RULE, EXPECTED_CLASSES (iterable of outcome classes that a
        non-vacuous run must see), ASSUMPTIONS (list of str)
    shards(tier, seed)            -> list of JSON-able shard descriptors
    run_shard(desc, tier, seed)   -> Acc
    replay(case)                  -> list of violation dicts (same format)
    space(tier, seed)             -> dict describing the enumerated space

All counts in the evidence are measured on the Acc objects.
"""
from __future__ import annotations

import collections
import hashlib
import json
import os
import sys
import time
import traceback

VERIF = os.path.dirname(os.path.dirname(os.path.abspath(__file__)))
REPO = os.environ.get('VERIF_REPO', '/repo')
GUARD = 'SVGPATHTOOLS_VERIF'


# per-shard context merged into every recorded violation case (e.g. {'prov': 'reversed_twice'}: how the library
# segments of mc.alphabets came into being); set by the worker from the shard descriptor, restored on replay
CONTEXT = {}
CONTEXT_KEYS = ('prov', 'pprov', 'module')


class module_settings(object):
    """context manager: documented module-level settings of svgpathtools.path (e.g. {'USE_SCIPY_QUAD': False}) set for
    the duration of a shard / a replay, restored afterwards (shard descriptors carry them under the key 'module')"""
    def __init__(self, settings):
        self.settings = settings or {}

    def __enter__(self):
        import svgpathtools.path as sp
        self.old = {k: getattr(sp, k) for k in self.settings}
        for k, v in self.settings.items():
            setattr(sp, k, v)

    def __exit__(self, *a):
        import svgpathtools.path as sp
        for k, v in self.old.items():
            setattr(sp, k, v)


def bind_repo():
    """Make `import svgpathtools` resolve to the working tree of /repo."""
    os.environ.setdefault(GUARD, '1')
    sys.dont_write_bytecode = True
    if sys.path[0] != REPO:
        sys.path.insert(0, REPO)
    import warnings
    warnings.simplefilter('ignore')
    import svgpathtools
    f = os.path.realpath(svgpathtools.__file__)
    assert f.startswith(os.path.realpath(REPO) + os.sep), \
        'svgpathtools imported from %s, not from %s' % (f, REPO)
    return svgpathtools


# --------------------------------------------------------------------------
# JSON helpers (lossless for floats/complex: json uses repr round-trip)

def jz(z):
    """complex/float -> JSON"""
    if isinstance(z, complex):
        return [z.real, z.imag]
    try:
        import numpy as np
        if isinstance(z, np.complexfloating):
            return [float(z.real), float(z.imag)]
        if isinstance(z, np.floating):
            return float(z)
        if isinstance(z, np.integer):
            return int(z)
        if isinstance(z, np.bool_):
            return bool(z)
    except ImportError:
        pass
    return z


def uz(j):
    if isinstance(j, (list, tuple)) and len(j) == 2:
        return complex(j[0], j[1])
    return j


def jdefault(o):
    r = jz(o)
    if r is not o:
        return r
    try:
        import numpy as np
        if isinstance(o, np.ndarray):
            return o.tolist()
    except ImportError:
        pass
    if isinstance(o, (set, frozenset)):
        return sorted(o)
    if isinstance(o, bytes):
        return o.decode('latin1')
    return repr(o)


def canon(obj):
    return json.dumps(obj, sort_keys=True, default=jdefault, allow_nan=True)


def h64(s):
    return int.from_bytes(hashlib.blake2b(s.encode(), digest_size=8).digest(), 'big')


# --------------------------------------------------------------------------

class Acc(object):
    """Accumulator for one shard (and, after merging, for the whole run)."""
    MAX_PER_SIG = 3

    def __init__(self):
        self.evaluations = 0
        self.classes = collections.Counter()
        self.filtered = collections.Counter()
        self.nontrivial = set()
        self.nontrivial_count = 0   # cases the harness enumerates without repetition (no hashing needed)
        self.violations = {}      # sig-hash -> dict (first = simplest)
        self.viol_counts = collections.Counter()
        self.samples = {}         # class -> sample case
        self.states = 0
        self.transitions = 0
        self.traces = 0
        self.max_depth = 0
        self.caps_hit = collections.Counter()
        self.extra = {}
        self.order = 0            # position of first violation in enumeration

    # -- recording
    def case(self, case, cls=None, nontrivial=True, unique=False):
        """Record one evaluated case.  `case` is JSON-able or a callable
        producing it lazily (only evaluated for samples / keys)."""
        self.evaluations += 1
        if cls is not None:
            self.classes[cls] += 1
            if cls not in self.samples:
                self.samples[cls] = case() if callable(case) else case
        if nontrivial and unique:
            self.nontrivial_count += 1
        elif nontrivial:
            c = case() if callable(case) else case
            self.nontrivial.add(h64(canon(c)))

    def seen(self, cls, n=1):
        self.classes[cls] += n

    def filt(self, reason, n=1):
        self.filtered[reason] += n

    def violation(self, clause, sig, case, observed=None, expected=None, detail=None):
        """sig: dict of abstract features (narrow!) used to group and to match
        known findings.  case: JSON-able, enough for replay()."""
        sig = dict(sig)
        if CONTEXT and isinstance(case, dict):
            case = dict(case, **CONTEXT)
            sig = dict(sig, **{k: (v if k != 'module' else canon(v)) for k, v in CONTEXT.items() if k in CONTEXT_KEYS})
        key = canon({'clause': clause, 'sig': sig})
        hk = hashlib.blake2b(key.encode(), digest_size=6).hexdigest()
        self.viol_counts[hk] += 1
        if hk not in self.violations:
            self.violations[hk] = {
                'clause': clause, 'signature': sig, 'case': case,
                'observed': observed, 'expected': expected, 'detail': detail,
                'order': self.evaluations}

    def merge(self, other, shard_index=0):
        self.evaluations += other.evaluations
        self.classes.update(other.classes)
        self.filtered.update(other.filtered)
        self.nontrivial |= other.nontrivial
        self.nontrivial_count += other.nontrivial_count
        for hk, v in other.violations.items():
            v = dict(v)
            v['order'] = (shard_index, v['order'])
            if hk not in self.violations or \
                    _ordkey(v['order']) < _ordkey(self.violations[hk]['order']):
                self.violations[hk] = v
        self.viol_counts.update(other.viol_counts)
        for c, s in other.samples.items():
            self.samples.setdefault(c, s)
        self.states += other.states
        self.transitions += other.transitions
        self.traces += other.traces
        self.max_depth = max(self.max_depth, other.max_depth)
        self.caps_hit.update(other.caps_hit)
        for k, v in other.extra.items():
            if isinstance(v, (int, float)) and isinstance(self.extra.get(k), (int, float)):
                self.extra[k] += v
            elif isinstance(v, list) and isinstance(self.extra.get(k), list):
                self.extra[k] += v
            elif isinstance(v, dict) and isinstance(self.extra.get(k), dict):
                for kk, vv in v.items():
                    if isinstance(vv, (int, float)) and isinstance(self.extra[k].get(kk), (int, float)):
                        self.extra[k][kk] += vv
                    else:
                        self.extra[k].setdefault(kk, vv)
            else:
                self.extra.setdefault(k, v)


def _ordkey(o):
    """flattened (shard, depth, position, ...) key of the first occurrence of a violation"""
    out = []

    def rec(x):
        if isinstance(x, (list, tuple)):
            for y in x:
                rec(y)
        else:
            out.append(x)
    rec(o)
    return tuple(out)


# --------------------------------------------------------------------------
# known findings

def load_known():
    p = os.path.join(VERIF, 'known_findings.json')
    if not os.path.exists(p):
        return []
    with open(p) as f:
        return json.load(f)['findings']


def match_known(prop, viol, known):
    """A known entry matches when property and clause agree and every
    key of its 'match' dict equals the violation's signature feature."""
    for e in known:
        if e.get('status') != 'known' or e.get('property') != prop:
            continue
        if e.get('clause') != viol['clause']:
            continue
        m = e.get('match', {})
        if all(viol['signature'].get(k) == v for k, v in m.items()):
            return e
    return None


# --------------------------------------------------------------------------
# running

def _worker(args):
    modname, desc, tier, seed, idx = args
    try:
        bind_repo()
        import importlib
        mod = importlib.import_module(modname)
        CONTEXT.clear()
        for ck in CONTEXT_KEYS:
            if isinstance(desc, dict) and desc.get(ck):
                CONTEXT[ck] = desc[ck]
        try:
            from mc import alphabets as _AB
            del _AB.DERIVE_ERRORS[:]
            with module_settings(CONTEXT.get('module')):
                acc = mod.run_shard(desc, tier, seed)
            for de in _AB.DERIVE_ERRORS[:50]:
                acc.violation('operation_on_library_object_raises', {'operation': de['prov'], 'kind': de['seg'][0], 'exc': de['exc']},
                              {'what': '__derive__', 'seg': de['seg']}, observed=de['exc'])
            del _AB.DERIVE_ERRORS[:]
            for ck in CONTEXT_KEYS:
                if CONTEXT.get(ck):
                    acc.seen('%s:%s' % (ck, CONTEXT[ck] if ck != 'module' else canon(CONTEXT[ck])))
        finally:
            CONTEXT.clear()
        return idx, acc, None
    except BaseException:
        return idx, None, traceback.format_exc()


def run_harness(mod, tier, seed, jobs=None):
    t0 = time.time()
    shards = mod.shards(tier, seed)
    jobs = jobs or int(os.environ.get('VERIF_JOBS', '0')) or min(16, os.cpu_count() or 1)
    total = Acc()
    args = [(mod.__name__, d, tier, seed, i) for i, d in enumerate(shards)]
    errors = []
    if jobs <= 1 or len(shards) <= 1 or getattr(mod, 'PARALLEL', None) == 'self':
        results = map(_worker, args)
        pool = None
    else:
        import multiprocessing as mp
        ctx = mp.get_context('fork')
        pool = ctx.Pool(min(jobs, len(shards)))
        results = pool.imap_unordered(_worker, args, chunksize=1)
    got = []
    for idx, acc, err in results:
        if err:
            errors.append((idx, err))
        else:
            got.append((idx, acc))
    if pool is not None:
        pool.close()
        pool.join()
    if errors:
        for idx, err in errors[:3]:
            sys.stderr.write('HARNESS-ERROR shard %r:\n%s\n' % (shards[idx], err))
        raise SystemExit(2)
    for idx, acc in sorted(got, key=lambda x: x[0]):
        total.merge(acc, idx)
    return total, time.time() - t0, len(shards)


def finish(mod, acc, tier, seed, wall, nshards):
    """Write replays + evidence, print the verdict lines, return exit code."""
    prop = mod.ID
    if hasattr(mod, 'finalize'):
        mod.finalize(acc)
    known = load_known()
    rdir = os.path.join(VERIF, 'replays', prop)
    exit_code = 0
    lines = []
    matched = []
    new = []
    for hk, v in sorted(acc.violations.items(), key=lambda kv: _ordkey(kv[1]['order'])):
        # confirm by replaying the recorded case on the current tree
        confirmed = None
        try:
            rc = v['case']
            CONTEXT.clear()
            if isinstance(rc, dict) and any(rc.get(ck) for ck in CONTEXT_KEYS):
                for ck in CONTEXT_KEYS:
                    if rc.get(ck):
                        CONTEXT[ck] = rc[ck]
                rc = {k: x for k, x in rc.items() if k not in CONTEXT_KEYS}
            try:
                with module_settings(CONTEXT.get('module')):
                    if isinstance(rc, dict) and rc.get('what') == '__derive__':
                        from mc import alphabets as _AB
                        rv = _AB.replay_derive(dict(rc, prov=CONTEXT.get('prov')))
                    else:
                        rv = mod.replay(rc)
            finally:
                CONTEXT.clear()
            confirmed = any(x['clause'] == v['clause'] for x in rv)
        except Exception:
            confirmed = None
            sys.stderr.write('replay raised for %s:\n%s\n' % (hk, traceback.format_exc()))
        if confirmed is not True:
            sys.stderr.write('NONDETERMINISM property=%s signature=%s: violation did not '
                             'reproduce on replay (harness error)\n' % (prop, hk))
            exit_code = max(exit_code, 2)
            continue
        e = match_known(prop, v, known)
        if e is not None:
            matched.append({'finding': e.get('id'), 'signature': v['signature'],
                            'clause': v['clause'], 'count': acc.viol_counts[hk]})
            ln = 'KNOWN-FINDING: property=%s %s' % (prop, e.get('what', e.get('id')))
            if ln not in lines:        # one line per listed finding, however many signatures it covers
                lines.append(ln)
            continue
        os.makedirs(rdir, exist_ok=True)
        path = os.path.join(rdir, '%s.json' % hk)
        rec = {'property': prop, 'clause': v['clause'], 'signature': v['signature'],
               'tier': tier, 'seed': seed, 'case': v['case'],
               'observed': v['observed'], 'expected': v['expected'],
               'detail': v['detail'], 'count_in_run': acc.viol_counts[hk]}
        with open(path, 'w') as f:
            json.dump(rec, f, indent=1, sort_keys=True, default=jdefault)
        write_replay_test(prop, hk, path)
        new.append(rec)
        lines.append('VIOLATION property=%s replay=%s' % (prop, path))
        sys.stderr.write('  clause=%s signature=%s\n  observed=%s\n  expected=%s\n  detail=%s\n' % (
            v['clause'], canon(v['signature']), canon(v['observed'])[:400],
            canon(v['expected'])[:400], str(v['detail'])[:600]))
        exit_code = max(exit_code, 1)

    # vacuity: every expected outcome class must have been seen
    missing = [c for c in getattr(mod, 'EXPECTED_CLASSES', ()) if acc.classes.get(c, 0) == 0]
    if hasattr(mod, 'expected_classes'):
        # 'a|b' = either of the alternatives
        missing = [c for c in mod.expected_classes(tier) if not any(acc.classes.get(x, 0) for x in str(c).split('|'))]
    if missing:
        sys.stderr.write('VACUOUS property=%s: expected outcome classes never seen: %s\n'
                         % (prop, missing))
        exit_code = max(exit_code, 2)

    samples = []
    keys = sorted(acc.samples, key=str)
    for c in keys[:12]:
        samples.append({'class': c, 'case': acc.samples[c]})
    cov = {
        'evaluations': acc.evaluations,
        'distinct_nontrivial': len(acc.nontrivial) + acc.nontrivial_count,
        'rule': mod.RULE,
        'samples': samples or [{'note': 'no classed samples'}],
        'exhaustive': not acc.caps_hit,
        'space': mod.space(tier, seed) if hasattr(mod, 'space') else {},
        'shards': nshards,
        'outcome_classes': {str(k): v for k, v in sorted(acc.classes.items(), key=lambda kv: str(kv[0]))},
        'filtered': dict(acc.filtered),
        'caps_hit': dict(acc.caps_hit),
        'traces_validated_against_impl': acc.traces or acc.evaluations,
        'known_findings_matched': matched,
        'violation_signatures': len(acc.violations),
    }
    if acc.states:
        cov['states'] = acc.states
        cov['transitions'] = acc.transitions
        cov['max_depth'] = acc.max_depth
    cov.update(acc.extra)
    ev = {
        'property_id': prop, 'tier': tier, 'seed': seed, 'level': mod.LEVEL,
        'coverage': cov,
        'assumptions': list(getattr(mod, 'ASSUMPTIONS', [])),
        'wall_s': round(wall, 3),
        'violations': len(new),
    }
    os.makedirs(os.path.join(VERIF, 'evidence'), exist_ok=True)
    with open(os.path.join(VERIF, 'evidence', '%s.json' % prop), 'w') as f:
        json.dump(ev, f, indent=1, sort_keys=True, default=jdefault)
    if new:
        exit_code = 1       # at least one confirmed, unlisted violation: that is the verdict
    for l in lines:
        print(l)
    print('%s tier=%s seed=%d evaluations=%d distinct_nontrivial=%d states=%d transitions=%d '
          'classes=%d violations=%d known=%d wall=%.1fs' % (
              prop, tier, seed, acc.evaluations, len(acc.nontrivial) + acc.nontrivial_count, acc.states,
              acc.transitions, len(acc.classes), len(new), len(matched), wall))
    sys.stdout.flush()
    return exit_code


def write_replay_test(prop, hk, path):
    """Plain unittest that replays the case without the explorer loop."""
    tpath = os.path.join(os.path.dirname(path), 'test_replay_%s.py' % hk)
    with open(tpath, 'w') as f:
        f.write('''import json, os, sys, unittest
sys.path.insert(0, %r)
from mc import core
core.bind_repo()
from mc.props import %s as H


class Replay(unittest.TestCase):
    def test_replay(self):
        rec = json.load(open(%r))
        v = [x for x in H.replay(rec['case']) if x['clause'] == rec['clause']]
        self.assertEqual(v, [], 'property %s still violated: %%s' %% v[:1])


if __name__ == '__main__':
    unittest.main()
''' % (VERIF, prop.lower(), path, prop))


class ReplayAcc(Acc):
    """Acc that keeps every violation as a list (used by replay())."""
    def __init__(self):
        Acc.__init__(self)
        self.vlist = []

    def violation(self, clause, sig, case, observed=None, expected=None, detail=None):
        self.vlist.append({'clause': clause, 'signature': dict(sig), 'case': case,
                           'observed': observed, 'expected': expected, 'detail': detail})


# --------------------------------------------------------------------------
# level-synchronous parallel breadth-first search over real objects

_BFS = {}


def _bfs_chunk(ci):
    import pickle
    b = _BFS
    acc = Acc()
    out = []
    local_seen = set()
    frontier = b['frontier']
    for idx in range(ci, len(frontier), b['nchunks']):
        hist, state = frontier[idx]
        for label, nxt in b['successors'](state, hist, acc):
            acc.transitions += 1
            k = h64(b['key'](nxt))
            if k in b['seen'] or k in local_seen:
                continue
            local_seen.add(k)
            nh = hist + [label]
            b['inspect'](nxt, nh, acc)
            out.append((k, nh, pickle.dumps(nxt, -1)))
    return out, acc


def parallel_bfs(roots, successors, key, inspect, acc, jobs=16, max_depth=None,
                 max_states=None):
    """roots: list of (history, state).  successors(state, hist, acc) yields
    (label, new_state) and must leave `state` untouched.  inspect(state, hist,
    acc) is evaluated once per distinct state.  Returns True when a fixpoint
    was reached (frontier empty) within the caps."""
    import pickle
    import multiprocessing as mp
    seen = set()
    frontier = []
    for hist, st in roots:
        k = h64(key(st))
        if k in seen:
            continue
        seen.add(k)
        inspect(st, hist, acc)
        frontier.append((hist, st))
    acc.states += len(frontier)
    depth = 0
    ctx = mp.get_context('fork')
    while frontier:
        if max_depth is not None and depth >= max_depth:
            acc.caps_hit['max_depth=%d' % max_depth] += 1
            return False
        depth += 1
        nchunks = max(1, min(jobs * 4, len(frontier)))
        _BFS.update(frontier=frontier, seen=seen, successors=successors, key=key,
                    inspect=inspect, nchunks=nchunks)
        if jobs <= 1 or len(frontier) < 8:
            results = [_bfs_chunk(i) for i in range(nchunks)]
        else:
            with ctx.Pool(min(jobs, nchunks)) as pool:
                results = pool.map(_bfs_chunk, range(nchunks), chunksize=1)
        new_frontier = []
        for out, a in results:
            acc.merge(a, depth)
            for k, nh, blob in out:
                if k in seen:
                    continue
                seen.add(k)
                new_frontier.append((nh, pickle.loads(blob)))
        acc.states += len(new_frontier)
        if new_frontier:
            acc.max_depth = depth
        frontier = new_frontier
        if max_states is not None and len(seen) > max_states:
            acc.caps_hit['max_states=%d' % max_states] += 1
            return False
    return True
