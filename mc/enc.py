"""JSON encoding of segments / paths (lossless) and small shared helpers."""
import math

from svgpathtools import Line, QuadraticBezier, CubicBezier, Arc, Path


def c2j(z):
    z = complex(z)
    return [z.real, z.imag]


def j2c(j):
    return complex(j[0], j[1])


def seg2j(s):
    if isinstance(s, Line):
        return ['L', c2j(s.start), c2j(s.end)]
    if isinstance(s, QuadraticBezier):
        return ['Q', c2j(s.start), c2j(s.control), c2j(s.end)]
    if isinstance(s, CubicBezier):
        return ['C', c2j(s.start), c2j(s.control1), c2j(s.control2), c2j(s.end)]
    if isinstance(s, Arc):
        return ['A', c2j(s.start), c2j(s.radius), float(s.rotation), bool(s.large_arc),
                bool(s.sweep), c2j(s.end)]
    raise TypeError(type(s))


def j2seg(j):
    k = j[0]
    if k == 'L':
        return Line(j2c(j[1]), j2c(j[2]))
    if k == 'Q':
        return QuadraticBezier(j2c(j[1]), j2c(j[2]), j2c(j[3]))
    if k == 'C':
        return CubicBezier(j2c(j[1]), j2c(j[2]), j2c(j[3]), j2c(j[4]))
    if k == 'A':
        return Arc(j2c(j[1]), j2c(j[2]), j[3], j[4], j[5], j2c(j[6]))
    raise ValueError(j)


def path2j(p):
    return [seg2j(s) for s in p]


def j2path(j):
    return Path(*[j2seg(s) for s in j])


def kind(s):
    return {Line: 'L', QuadraticBezier: 'Q', CubicBezier: 'C', Arc: 'A'}[type(s)]


def defining_points(s):
    if isinstance(s, Arc):
        return (s.start, s.end)
    return tuple(s.bpoints())


def seg_size(s):
    pts = [complex(p) for p in defining_points(s)]
    if isinstance(s, Arc):
        pts.append(s.center + abs(s.radius.real) + 1j * abs(s.radius.imag))
        pts.append(s.center - abs(s.radius.real) - 1j * abs(s.radius.imag))
    xs = [p.real for p in pts]
    ys = [p.imag for p in pts]
    return max(max(xs) - min(xs), max(ys) - min(ys), max(abs(p) for p in pts) * 1e-3, 1e-300)


def ulp(x):
    return math.ulp(abs(x)) if x == x and abs(x) != float('inf') else float('nan')


def outcome(fn):
    """Run fn(); return ('ok', value) or ('exc', ExceptionTypeName)."""
    try:
        return ('ok', fn())
    except RecursionError:
        return ('exc', 'RecursionError')
    except Exception as e:  # noqa
        return ('exc', type(e).__name__)
