"""Prints the measured-size table of DESIGN.md 10.1 from evidence files.
usage: tools/sizes_table.py <quick evidence dir> <thorough evidence dir>"""
import json, os, sys
q, t = sys.argv[1], sys.argv[2]
print('| id | quick: cases / states / transitions / wall | thorough: cases / states / transitions / wall |')
print('|----|---------------------------------------------|------------------------------------------------|')
for i in range(1, 21):
    pid = 'C%02d' % i
    row = [pid]
    for d in (q, t):
        f = os.path.join(d, pid + '.json')
        if not os.path.exists(f):
            row.append('n/a')
            continue
        j = json.load(open(f))
        c = j['coverage']
        caps = (' caps: ' + ', '.join(c['caps_hit'])) if c.get('caps_hit') else ''
        row.append('%s / %s / %s / %.0f s%s%s' % (format(c['evaluations'], ',').replace(',', ' '),
                                               format(c.get('states', 0), ',').replace(',', ' ') if c.get('states') else '-',
                                               format(c.get('transitions', 0), ',').replace(',', ' ') if c.get('transitions') else '-',
                                               j['wall_s'], ' (%s tier)' % j['tier'] if j['tier'] not in d and False else '', caps))
    print('| ' + ' | '.join(row) + ' |')
