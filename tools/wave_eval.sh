#!/bin/sh
# usage: [IN_WORKTREE=1] tools/wave_eval.sh "C01:C01 C18" "C02:C02 C01" ...   (property:checks to run)
# IN_WORKTREE=1 evaluates each change inside its own scratch worktree /tmp/wt_<P> instead of /repo.
for spec in "$@"; do
  P=${spec%%:*}; CH=${spec#*:}
  for v in A B; do
    d=/tmp/wt_$P/_out
    [ -f $d/patch$v.diff ] || { echo "== $P$v: no patch"; continue; }
    echo "== $P$v"
    if [ -n "$IN_WORKTREE" ]; then
      EVAL_REPO=/tmp/wt_$P /verif/tools/seeded_eval.sh $d/patch$v.diff $d/demo$v.py $CH 2>&1
    else
      /verif/tools/seeded_eval.sh $d/patch$v.diff $d/demo$v.py $CH 2>&1
    fi
  done
done
