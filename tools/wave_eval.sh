#!/bin/sh
# usage: tools/wave_eval.sh "C01:C01 C18" "C02:C02 C01" ...   (property:checks to run)
for spec in "$@"; do
  P=${spec%%:*}; CH=${spec#*:}
  for v in A B; do
    d=/tmp/wt_$P/_out
    [ -f $d/patch$v.diff ] || { echo "== $P$v: no patch"; continue; }
    echo "== $P$v"
    /verif/tools/seeded_eval.sh $d/patch$v.diff $d/demo$v.py $CH 2>&1
  done
done
