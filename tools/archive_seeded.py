"""Archive evaluated seeded changes under /verif/seeded/<id>/ from the wave logs."""
import json, os, re, shutil, sys

def parse(log):
    out = {}
    cur = None
    for line in open(log):
        line = line.rstrip('\n')
        m = re.match(r'== (C\d\d)([A-Z])$', line)
        if m:
            cur = m.group(1) + m.group(2)
            out[cur] = {'tests': None, 'demo_with': None, 'demo_without': None, 'checks': {}}
            continue
        if cur is None:
            continue
        if line.startswith('TESTS:'):
            out[cur]['tests'] = line[6:].strip()
        elif line.startswith('DEMO with change'):
            out[cur]['demo_with'] = int(line.split('exit=')[1])
        elif line.startswith('DEMO without change'):
            out[cur]['demo_without'] = int(line.split('exit=')[1])
        else:
            m = re.match(r'(C\d\d) exit=(\d+) violations=(\d+)\s*(.*)', line)
            if m:
                clauses = sorted(set(re.findall(r'clause=(\w+)', m.group(4))))
                out[cur]['checks'][m.group(1)] = {'exit': int(m.group(2)), 'violation_signatures': int(m.group(3)), 'clauses': clauses}
    return out

def merged(logs):
    out = {}
    for log in logs:
        for sid, r in parse(log).items():
            if sid not in out:
                out[sid] = r
            else:
                for k in ('tests', 'demo_with', 'demo_without'):
                    out[sid][k] = out[sid][k] if out[sid][k] is not None else r[k]
                out[sid]['checks'].update(r['checks'])
    return out


def main(logs, srcroot='/tmp', rename=None):
    if True:
        for sid, r in merged(logs).items():
            P, v = sid[:3], sid[3]
            if rename:
                sid = P + rename[v]
            src = os.path.join(srcroot, 'wt_' + P, '_out')
            dst = os.path.join('/verif/seeded', sid)
            os.makedirs(dst, exist_ok=True)
            shutil.copy(os.path.join(src, 'patch%s.diff' % v), os.path.join(dst, 'patch.diff'))
            shutil.copy(os.path.join(src, 'demo%s.py' % v), os.path.join(dst, 'demo.py'))
            og = os.path.join(src, 'patch%s.orig.diff' % v)
            if os.path.exists(og) and open(og).read() != open(os.path.join(src, 'patch%s.diff' % v)).read():
                # the author's patch as written (on an earlier commit of /repo); patch.diff is the same change carried
                # over to the tree after later repairs touched neighbouring lines
                shutil.copy(og, os.path.join(dst, 'patch_as_written.diff'))
            notes = open(os.path.join(src, 'notes.md')).read() if os.path.exists(os.path.join(src, 'notes.md')) else ''
            open(os.path.join(dst, 'notes_from_author.md'), 'w').write(notes)
            caught = sorted(c for c, x in r['checks'].items() if x['exit'] == 1 and x['violation_signatures'] > 0)
            meta = {
                'id': sid, 'breaks_property': P,
                'origin': 'written by an independent sub-agent that saw only the property text and a scratch worktree of /repo (nothing from /verif)',
                'needs_to_manifest': 'see notes_from_author.md (section for change %s)' % v,
                'confirmed_by_me': {
                    'applied_to': '/repo working tree (git apply), restored afterwards (git checkout -- .)',
                    'repository_tests_with_change': r['tests'],
                    'demo_exit_with_change': r['demo_with'], 'demo_exit_without_change': r['demo_without'],
                    'commands': ['tools/seeded_eval.sh seeded/%s/patch.diff seeded/%s/demo.py %s' % (sid, sid, ' '.join(sorted(r['checks'])))],
                },
                'checks_run_quick_tier': r['checks'],
                'caught_by': caught,
            }
            json.dump(meta, open(os.path.join(dst, 'meta.json'), 'w'), indent=1)
            print(sid, 'tests:', r['tests'], 'demo', r['demo_with'], r['demo_without'], 'caught_by', caught)

if __name__ == '__main__':
    if sys.argv[1] == '--wave3':
        main(sys.argv[2:], rename={'A': 'C', 'B': 'D'})
    elif sys.argv[1] == '--wave4':
        main(sys.argv[2:], rename={'A': 'E', 'B': 'F'})
    elif sys.argv[1] == '--wave5':
        main(sys.argv[2:], rename={'A': 'G', 'B': 'H'})
    elif sys.argv[1] == '--wave6':
        main(sys.argv[2:], rename={'A': 'I', 'B': 'J'})
    elif sys.argv[1] == '--wave7':
        main(sys.argv[2:], rename={'A': 'K', 'B': 'L'})
    elif sys.argv[1] == '--wave8':
        main(sys.argv[2:], rename={'A': 'M', 'B': 'N'})
    else:
        main(sys.argv[1:])
