#!/bin/sh
# usage: tools/seeded_eval.sh <patch.diff> <demo.py> [check ids...]
# Applies a seeded change to /repo, runs the repository's tests and the demonstration, runs the given
# checks (default: all), and ALWAYS restores /repo.  Prints one line per check.
# EVAL_REPO=<worktree of /repo at the same commit> evaluates there instead (used while a long run occupies /repo);
# TIER=thorough runs the thorough tier.
PATCH=$(readlink -f "$1"); DEMO=$(readlink -f "$2"); shift 2
CHECKS="$@"
[ -z "$CHECKS" ] && CHECKS="C01 C02 C03 C04 C05 C06 C07 C08 C09 C10 C11 C12 C13 C14 C15 C16 C17 C18 C19 C20"
R=${EVAL_REPO:-/repo}; TIER=${TIER:-quick}
cd $R || exit 2
if [ -n "$(git status --porcelain --untracked-files=no)" ]; then echo "REPO NOT CLEAN"; exit 2; fi
git apply "$PATCH" || { echo "PATCH DOES NOT APPLY"; exit 2; }
trap 'cd $R && git checkout -- . ' EXIT INT TERM
T=$(SVGPATHTOOLS_VERIF= /venv/bin/python -m pytest -q -p no:cacheprovider --timeout=900 2>&1 | tail -1)
echo "TESTS: $T"
# the demo was written against a scratch worktree: point it at /repo
sed "s#sys.path.insert(0, *['\"][^'\"]*['\"])#sys.path.insert(0, '$R')#" "$DEMO" > /tmp/_seeded_demo_$$.py
( cd /tmp && PYTHONPATH=$(dirname "$DEMO") timeout 600 /venv/bin/python /tmp/_seeded_demo_$$.py >/dev/null 2>&1 ); echo "DEMO with change: exit=$?"
V=${VERIF_DIR:-/verif}; cd $V
for c in $CHECKS; do
  out=$(VERIF_REPO=$R timeout 3000 ./check $c --tier $TIER 2>&1); r=$?
  echo "$c exit=$r violations=$(echo "$out" | grep -c '^VIOLATION') $(echo "$out" | grep 'clause=' | head -3 | cut -c1-200 | tr '\n' '|')"
  rm -rf $V/replays/$c
done
cd $R && git checkout -- . && trap - EXIT
( cd /tmp && PYTHONPATH=$(dirname "$DEMO") timeout 600 /venv/bin/python /tmp/_seeded_demo_$$.py >/dev/null 2>&1 ); echo "DEMO without change: exit=$?"
rm -f /tmp/_seeded_demo_$$.py
