#!/bin/sh
# Nothing to build: the explorer is pure Python run by /venv/bin/python against /repo's working tree.
# This only verifies that the interpreter, the dependencies and the binding to /repo are in place.
set -e
cd "$(dirname "$0")"
/venv/bin/python -B - <<'PY'
import sys
sys.path.insert(0, '.')
from mc import core
m = core.bind_repo()
import numpy, scipy, svgwrite
print('setup ok: svgpathtools from', m.__file__, 'numpy', numpy.__version__, 'scipy', scipy.__version__)
PY
