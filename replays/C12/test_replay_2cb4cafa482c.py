import json, os, sys, unittest
sys.path.insert(0, '/verif')
from mc import core
core.bind_repo()
from mc.props import c12 as H


class Replay(unittest.TestCase):
    def test_replay(self):
        rec = json.load(open('/verif/replays/C12/2cb4cafa482c.json'))
        v = [x for x in H.replay(rec['case']) if x['clause'] == rec['clause']]
        self.assertEqual(v, [], 'property C12 still violated: %s' % v[:1])


if __name__ == '__main__':
    unittest.main()
