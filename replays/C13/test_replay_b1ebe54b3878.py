import json, os, sys, unittest
sys.path.insert(0, '/verif')
from mc import core
core.bind_repo()
from mc.props import c13 as H


class Replay(unittest.TestCase):
    def test_replay(self):
        rec = json.load(open('/verif/replays/C13/b1ebe54b3878.json'))
        v = [x for x in H.replay(rec['case']) if x['clause'] == rec['clause']]
        self.assertEqual(v, [], 'property C13 still violated: %s' % v[:1])


if __name__ == '__main__':
    unittest.main()
